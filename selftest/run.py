#!/usr/bin/env python3
"""Checker self-test: apply one mutant at a time to a scratch copy of /repo (never /repo itself), run the
expected checks against the copy (VERIF_REPO), and require a VIOLATION that the unchanged tree does not show.

  selftest/run.py [--only id1,id2] [--jobs N] [--tests] [--seeded]      (results: selftest/results.json)

--tests   also confirm that the mutant builds and passes the repository's test-suite
--seeded  run the sub-agent produced changes under /verif/seeded/*/patch.diff instead of the catalogue"""
import argparse
import concurrent.futures
import json
import os
import shutil
import subprocess
import sys
import time

HERE = os.path.dirname(os.path.abspath(__file__))
VERIF = os.path.dirname(HERE)
sys.path.insert(0, HERE)
REPO = "/repo"


def sh(cmd, cwd=None, env=None, timeout=3600):
    r = subprocess.run(cmd, cwd=cwd, env=env, shell=isinstance(cmd, str), stdout=subprocess.PIPE, stderr=subprocess.STDOUT, text=True, timeout=timeout)
    return r.returncode, r.stdout


def make_copy(dst, commit="HEAD"):
    shutil.rmtree(dst, ignore_errors=True)
    os.makedirs(dst)
    rc, out = sh("git -C %s archive %s | tar -x -C %s" % (REPO, commit, dst))
    if rc != 0:
        raise RuntimeError(out)


def apply_catalogue(m, helpers, dst):
    edits = [(m["file"], m["old"], m["new"])] + helpers.get(m["id"], [])
    for f, old, new in edits:
        p = os.path.join(dst, f)
        s = open(p).read()
        if s.count(old) != 1:
            return "anchor occurs %d times in %s" % (s.count(old), f)
        s = s.replace(old, new)
        open(p, "w").write(s)
    return None


def run_one(job):
    mid, props, kind = job["id"], job["props"], job["kind"]
    dst = "/tmp/st-%s" % mid
    work = "/tmp/st-work-%s" % mid
    ev = "/tmp/st-ev-%s" % mid
    res = {"id": mid, "props": props, "desc": job.get("desc"), "control": job.get("control", False)}
    t0 = time.time()
    try:
        make_copy(dst, job.get("base_commit") or "HEAD")
        if kind == "catalogue":
            err = apply_catalogue(job["m"], job["helpers"], dst)
            if err:
                res["error"] = err
                return res
            rc, diff = sh("diff -ru %s/strum_macros %s/strum_macros; diff -ru %s/strum/src %s/strum/src" % (REPO, dst, REPO, dst))
            os.makedirs(os.path.join(HERE, "mutants"), exist_ok=True)
            open(os.path.join(HERE, "mutants", mid + ".diff"), "w").write(diff.replace(dst + "/", "b/").replace(REPO + "/", "a/"))
        else:
            rc, out = sh(["git", "apply", "--directory=" + dst.lstrip("/"), "--unsafe-paths", job["patch"]], cwd="/")
            if rc != 0:
                rc, out = sh("cd %s && patch -p1 < %s" % (dst, job["patch"]))
                if rc != 0:
                    res["error"] = "patch does not apply: " + out[-300:]
                    return res
        if job.get("tests"):
            env = dict(os.environ, CARGO_TARGET_DIR="/tmp/st-target-%d" % job["slot"], CARGO_NET_OFFLINE="true")
            rc, out = sh("cargo test --workspace --no-fail-fast --offline 2>&1 | tail -40", cwd=dst, env=env)
            rc2, out2 = sh("cargo test --workspace --no-fail-fast --offline 2>&1 | grep -E '^test result|error(\\[|:)|FAILED' ", cwd=dst, env=env)
            res["builds"] = "error" not in out2 or "test result" in out2
            res["tests_pass"] = ("FAILED" not in out2) and ("test result" in out2) and ("error: could not compile" not in out)
            res["tests_tail"] = out2[-600:]
        res["checks"] = {}
        env = dict(os.environ, VERIF_REPO=dst, VERIF_WORK=work, VERIF_EVIDENCE=ev)
        for p in props:
            rc, out = sh([os.path.join(VERIF, "check"), p, "--tier", "quick"], cwd=VERIF, env=env)
            lines = [l for l in out.splitlines() if l.startswith(("VIOLATION", "  what:", "  key:", "TOOL-ERROR", "KNOWN-FINDING"))]
            res["checks"][p] = {"rc": rc, "lines": lines[:12]}
    except Exception as e:  # noqa
        res["error"] = repr(e)
    finally:
        shutil.rmtree(dst, ignore_errors=True)
        shutil.rmtree(work, ignore_errors=True)
        shutil.rmtree(ev, ignore_errors=True)
    res["wall_s"] = round(time.time() - t0, 1)
    return res


def main():
    ap = argparse.ArgumentParser()
    ap.add_argument("--only", default="")
    ap.add_argument("--jobs", type=int, default=3)
    ap.add_argument("--tests", action="store_true")
    ap.add_argument("--seeded", action="store_true")
    ap.add_argument("--all-props", action="store_true", help="run every check against each mutant (false-alarm cross check)")
    ap.add_argument("--refactors", action="store_true", help="run the behaviour-preserving refactorings under /verif/refactors/*/patch.diff: every check must stay silent")
    args = ap.parse_args()
    jobs = []
    if args.refactors:
        root = os.path.join(VERIF, "refactors")
        for d in sorted(os.listdir(root)):
            if os.path.exists(os.path.join(root, d, "patch.diff")):
                mj = json.load(open(os.path.join(root, d, "meta.json")))
                jobs.append({"id": d, "props": ["C%02d" % i for i in range(1, 21)], "kind": "seeded", "patch": os.path.join(root, d, "patch.diff"), "desc": mj.get("summary"), "control": True})
    elif args.seeded:
        root = os.path.join(VERIF, "seeded")
        for d in sorted(os.listdir(root)):
            meta = os.path.join(root, d, "meta.json")
            if not os.path.exists(meta):
                continue
            mj = json.load(open(meta))
            props = mj.get("expected_checks") or [mj["property"]]
            jobs.append({"id": d, "props": props, "kind": "seeded", "patch": os.path.join(root, d, "patch.diff"), "desc": mj.get("summary"), "base_commit": mj.get("base_commit")})
    else:
        import catalogue
        for m in catalogue.M:
            jobs.append({"id": m["id"], "props": m["props"], "kind": "catalogue", "m": m, "helpers": catalogue.HELPERS, "desc": m["desc"], "control": m["id"] in catalogue.CONTROLS})
    if args.only:
        keep = set(args.only.split(","))
        jobs = [j for j in jobs if j["id"] in keep]
    if args.all_props:
        for j in jobs:
            j["props"] = ["C%02d" % i for i in range(1, 21)]
    for i, j in enumerate(jobs):
        j["tests"] = args.tests
        j["slot"] = i % max(1, args.jobs)
    results = []
    with concurrent.futures.ThreadPoolExecutor(max_workers=args.jobs) as ex:
        for r in ex.map(run_one, jobs):
            results.append(r)
            fired = [p for p, c in r.get("checks", {}).items() if c["rc"] == 1]
            status = "ERROR " + r["error"] if "error" in r else ("control: silent" if r.get("control") and not fired else ("control: FIRED" if r.get("control") else ("DETECTED by " + ",".join(fired) if fired else "MISSED")))
            extra = ""
            if "tests_pass" in r:
                extra = " [builds=%s tests_pass=%s]" % (r.get("builds"), r.get("tests_pass"))
            print("%-32s %s%s  (%ss)" % (r["id"], status, extra, r.get("wall_s")), flush=True)
    out = os.path.join(HERE, "results_refactors.json" if args.refactors else ("results_seeded.json" if args.seeded else "results.json"))
    prev = {}
    if os.path.exists(out) and args.only:
        prev = {r["id"]: r for r in json.load(open(out))}
    for r in results:
        prev[r["id"]] = r
    json.dump(list(prev.values()) if args.only else results, open(out, "w"), indent=1)


if __name__ == "__main__":
    main()
