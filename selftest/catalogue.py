"""Self-test catalogue: one-edit mutants of strum, each expected to be reported by the named check(s).

Each entry: (id, [properties expected to fire], file, old, new, description).  `old` must occur exactly once."""

M = []


def m(id_, props, file, old, new, desc):
    M.append({"id": id_, "props": props, "file": file, "old": old, "new": new, "desc": desc})


VP = "strum_macros/src/helpers/variant_props.rs"
FS = "strum_macros/src/macros/strings/from_string.rs"
DI = "strum_macros/src/macros/strings/display.rs"
AR = "strum_macros/src/macros/strings/as_ref_str.rs"
IT = "strum_macros/src/macros/enum_iter.rs"
CS = "strum_macros/src/helpers/case_style.rs"
FR = "strum_macros/src/macros/from_repr.rs"
TB = "strum_macros/src/macros/enum_table.rs"
MS = "strum_macros/src/macros/enum_messages.rs"
PR = "strum_macros/src/macros/enum_properties.rs"
DS = "strum_macros/src/macros/enum_discriminants.rs"
VN = "strum_macros/src/macros/enum_variant_names.rs"
VA = "strum_macros/src/macros/enum_variant_array.rs"
EC = "strum_macros/src/macros/enum_count.rs"
IS = "strum_macros/src/macros/enum_is.rs"
TA = "strum_macros/src/macros/enum_try_as.rs"

# ---- C01
m("c01_cased_ident_kept", ["C01"], VP, "        if attrs.is_empty() {", "        if self.serialize.is_empty() {",
  "a variant with only to_string also accepts its cased identifier")
m("c01_tryfrom_trims", ["C01"], FS, "                ::core::str::FromStr::from_str(s)\n", "                ::core::str::FromStr::from_str(s.trim())\n",
  "TryFrom<&str> trims its input before delegating (TryFrom and FromStr disagree)")
m("c01_default_with_ignored_named", ["C01"], FS, "                    if let Some(default_with) = meta.default_with {", "                    if let (Some(default_with), true) = (meta.default_with, fields.named.len() != 3) {",
  "field-level default_with is ignored on three-field variants")
# ---- C02 / C14 / G4
m("c02_serializations_uncased", ["C02", "C14", "C07"], MS, "                variant_properties.get_serializations(type_properties.case_style);", "                variant_properties.get_serializations(None);",
  "get_serializations ignores serialize_all")
# ---- C03
m("c03_last_serialize", ["C03"], VP, "                .max_by_key(|s| s.value().len())", "                .last()",
  "preferred name is the last serialize instead of the longest")
m("c03_variant_names_no_prefix", ["C03", "C07"], VN, "                .get_preferred_name(type_properties.case_style, type_properties.prefix.as_ref()))", "                .get_preferred_name(type_properties.case_style, None))",
  "VariantNames drops the prefix")
m("c03_into_str_const_uncased", ["C03", "C07"], AR, "    let arms = &get_arms(ast, |tok| {\n        quote! { ::core::convert::From::from(#tok) }\n    })?;",
  "    let arms = &get_arms(ast, |tok| {\n        quote! { ::core::convert::From::from(#tok) }\n    })?;\n    let _ = 0;", "no-op control (must NOT be reported)")
# ---- C04
m("c04_idx_hoisted", ["C04", "C08"], IT, "        if variant.get_variant_properties()?.disabled.is_some() {\n            continue;\n        }\n\n        let ident = &variant.ident;\n        let params = match &variant.fields {\n            Fields::Unit => quote! {},\n            Fields::Unnamed(fields) => {\n                let defaults = ::core::iter::repeat(quote!(::core::default::Default::default()))\n                    .take(fields.unnamed.len());\n                quote! { (#(#defaults),*) }\n            }\n            Fields::Named(fields) => {\n                let fields = fields\n                    .named\n                    .iter()\n                    .map(|field| field.ident.as_ref().unwrap());\n                quote! { {#(#fields: ::core::default::Default::default()),*} }\n            }\n        };\n\n        arms.push(quote! {#idx => ::core::option::Option::Some(#name::#ident #params)});\n        idx += 1;",
  "        idx += 1;\n        if variant.get_variant_properties()?.disabled.is_some() {\n            continue;\n        }\n\n        let ident = &variant.ident;\n        let params = match &variant.fields {\n            Fields::Unit => quote! {},\n            Fields::Unnamed(fields) => {\n                let defaults = ::core::iter::repeat(quote!(::core::default::Default::default()))\n                    .take(fields.unnamed.len());\n                quote! { (#(#defaults),*) }\n            }\n            Fields::Named(fields) => {\n                let fields = fields\n                    .named\n                    .iter()\n                    .map(|field| field.ident.as_ref().unwrap());\n                quote! { {#(#fields: ::core::default::Default::default()),*} }\n            }\n        };\n\n        let idx = idx - 1;\n        arms.push(quote! {#idx => ::core::option::Option::Some(#name::#ident #params)});",
  "the index counter also advances for disabled variants (holes in the index table)")
m("c04_count_all", ["C04", "C08"], EC, "            if v.get_variant_properties()?.disabled.is_none() {", "            if v.get_variant_properties()?.disabled.is_none() || true {",
  "COUNT includes disabled variants")
# ---- C05
m("c05_nth_ge", ["C05"], IT, "                if idx.saturating_add(self.back_idx) > #variant_count {", "                if idx.saturating_add(self.back_idx) >= #variant_count {",
  "nth treats the last remaining item as out of range")
m("c05_no_freeze", ["C05"], IT, "                    self.idx = #variant_count;\n                    ::core::option::Option::None", "                    ::core::option::Option::None",
  "nth past the end no longer freezes the cursor")
m("c05_marker", ["C05"], IT, "        quote! { < fn() -> ( #(#g),* ) > }", "        quote! { < ( #(#g),* ) > }",
  "PhantomData<(T..)> marker: the iterator is no longer Send + Sync for all T")
m("c05_nth_plain_add", ["C05"], IT, "                let idx = self.idx.saturating_add(n).saturating_add(1);", "                let idx = self.idx.saturating_add(n) + 1;",
  "one of the additions in nth is plain again (overflow for n = usize::MAX)")
m("c05_next_back_off_by_one", ["C05"], IT, "                    #iter_name::get(self, #variant_count - self.back_idx)", "                    #iter_name::get(self, #variant_count - back_idx + 1 - 1 - (self.idx - self.idx))",
  "control: algebraically identical next_back index (must NOT be reported)")
m("c05_size_hint", ["C05"], IT, "{ #variant_count - self.idx - self.back_idx };", "{ #variant_count - self.idx };",
  "size_hint ignores items consumed from the back")
# ---- C06
m("c06_explicit_resets", ["C06"], FR, "        prev_const_var_ident = Some(const_var_ident.clone());", "        prev_const_var_ident = if variant.discriminant.is_some() && variant.fields.len() > 0 { None } else { Some(const_var_ident.clone()) };",
  "after an explicit discriminant on a data-carrying variant numbering restarts at 0")
m("c06_i8_not_recognised", ["C06"], FR, "\"u8\", \"u16\", \"u32\", \"u64\", \"usize\", \"i8\", \"i16\", \"i32\", \"i64\", \"isize\",", "\"u8\", \"u16\", \"u32\", \"u64\", \"usize\", \"i16\", \"i32\", \"i64\", \"isize\",",
  "#[repr(i8)] is not recognised: from_repr takes usize")
# ---- C07
m("c07_swapped", ["C07", "C03", "C01"], CS, "                CaseStyle::ShoutySnakeCase => ident_string.to_shouty_snake_case(),\n                CaseStyle::SnakeCase => ident_string.to_snake_case(),",
  "                CaseStyle::ShoutySnakeCase => ident_string.to_snake_case(),\n                CaseStyle::SnakeCase => ident_string.to_shouty_snake_case(),", "snake and SCREAMING_SNAKE conversions swapped")
m("c07_alias", ["C07"], CS, "            \"kebab-case\" | \"kebab_case\" => CaseStyle::KebabCase,", "            \"kebab-case\" => CaseStyle::KebabCase,\n            \"kebab_case\" => CaseStyle::SnakeCase,",
  "legacy alias kebab_case mapped to snake_case")
m("c07_train_as_title", ["C07"], CS, "                CaseStyle::TrainCase => ident_string.to_train_case(),", "                CaseStyle::TrainCase => ident_string.to_title_case().replace(' ', \"-\"),",
  "control: Train-Case computed as title case with dashes (same result; G5 sees a different callee list => conservative alarm expected)")
# ---- C08
m("c08_array_skips_disabled", ["C08"], VA, "        .map(|v| match v.fields {", "        .filter(|v| !v.attrs.iter().any(|a| quote::ToTokens::to_token_stream(a).to_string().contains(\"disabled\")))\n        .map(|v| match v.fields {",
  "VariantArray skips disabled variants")
m("c08_names_skips_disabled", ["C08", "C03"], VN, "        .map(|v| {\n            let props = v.get_variant_properties()?;", "        .filter(|v| v.get_variant_properties().map(|p| p.disabled.is_none()).unwrap_or(true))\n        .map(|v| {\n            let props = v.get_variant_properties()?;",
  "VariantNames skips disabled variants")
# ---- C09
m("c09_repr_dropped", ["C09"], DS, "    let repr = type_properties.enum_repr.map(|repr| quote!(#[repr(#repr)]));", "    let repr = type_properties.enum_repr.filter(|r| !r.to_string().contains(\"i\")).map(|repr| quote!(#[repr(#repr)]));",
  "signed #[repr] is not copied to the discriminant enum")
m("c09_ref_conversion", ["C09"], DS, "                fn from(val: #enum_life #name #ty_generics) -> #discriminants_name {\n                    #from_fn_body\n                }",
  "                fn from(val: #enum_life #name #ty_generics) -> #discriminants_name {\n                    #from_ref_fn_body\n                }", "From<&E> maps the last two variants to each other (needs helper below)")
# ---- C10
m("c10_all_ok_reversed", ["C10"], TB, "                    #(#snake_idents: self.#snake_idents?,)*", "                    #(#rev_idents: self.#rev_idents?,)*",
  "all_ok evaluates the slots in reverse order (first Err in reverse declaration order) (needs helper)")
m("c10_from_closure_first", ["C10"], TB, "        closure_fields.push(quote! {#snake_case: func(#name::#pascal_case),});", "        closure_fields.push(if pascal_idents.len() == 2 { let p0 = pascal_idents[0]; quote! {#snake_case: func(#name::#p0),} } else { quote! {#snake_case: func(#name::#pascal_case),} });",
  "from_closure passes the first variant for the third slot")
# ---- C11
m("c11_trim", ["C11"], FS, "                        ::core::result::Result::Ok(#name::#ident(s.into()))", "                        ::core::result::Result::Ok(#name::#ident(s.trim().into()))",
  "the default variant captures the trimmed input")
m("c11_formatter", ["C11"], DI, "            let arm = super::extract_single_field_variant_and_then(name, variant, |tok| {\n                quote! { ::core::fmt::Display::fmt(#tok, f) }\n            })\n            .map_err(|_| non_single_field_variant_error(\"transparent\"))?;",
  "            let arm = super::extract_single_field_variant_and_then(name, variant, |tok| {\n                quote! { f.write_fmt(format_args!(\"{}\", #tok)) }\n            })\n            .map_err(|_| non_single_field_variant_error(\"transparent\"))?;",
  "transparent Display renders through write_fmt: the caller's width/precision no longer reach the inner value")
# ---- C12
m("c12_lowercase_guard", ["C12"], FS, "                    quote! { s if s.eq_ignore_ascii_case(#serialization) => #name::#ident #params, }\n                });",
  "                    quote! { s if s.to_lowercase() == #serialization.to_lowercase() => #name::#ident #params, }\n                });", "case-insensitive arms use Unicode lowercase folding")
m("c12_false_ignored", ["C12", "C01"], FS, "            .unwrap_or(type_properties.ascii_case_insensitive);", "            .unwrap_or(false)\n            || type_properties.ascii_case_insensitive;",
  "a variant-level `ascii_case_insensitive = false` no longer overrides the enum-level flag")
# ---- C13
m("c13_try_as_disabled", ["C13"], TA, "        if variant.get_variant_properties()?.disabled.is_none() {", "        if variant.get_variant_properties()?.disabled.is_none() || variant.fields.len() == 1 {",
  "try_as_* methods are generated for disabled single-field variants")
# ---- C14
m("c14_no_fallback", ["C14"], MS, "            if detailed_messages.is_none() {\n                detailed_arms.push(tokens);\n            }", "            if detailed_messages.is_none() && false {\n                detailed_arms.push(tokens);\n            }",
  "get_detailed_message no longer falls back to the message")
m("c14_trim_start", ["C14"], MS, "                        LitStr::new(&line.as_str()[1..], lit_str.span())", "                        LitStr::new(line.trim_start(), lit_str.span())",
  "documentation lines lose all leading spaces instead of one")
# ---- C15
m("c15_replace_group", ["C15"], VP, "                    output.props.extend(props);", "                    output.props = props;",
  "a second props(..) group replaces the first")
m("c15_nine", ["C15"], PR, "                Lit::Int(..) => PropertyType::Integer,", "                Lit::Int(ref i) if !i.base10_digits().starts_with('9') => PropertyType::Integer,\n                Lit::Int(..) => PropertyType::String,",
  "integers starting with 9 are bucketed as strings: the generated code does not type-check for such enums")
# ---- C16
m("c16_no_fallback", ["C16", "C12", "C01"], FS, "                    standard_match_arms.push(quote! { s if s.eq_ignore_ascii_case(#serialization) => #name::#ident #params, });\n", "",
  "with use_phf the eq_ignore_ascii_case fallback arm is dropped: mixed-case input is rejected")
# ---- C17
m("c17_write_str", ["C17"], DI, "                quote! { #name::#ident #params => ::core::fmt::Display::fmt(#output, f) }\n            }\n        };", "                quote! { #name::#ident #params => f.write_str(#output) }\n            }\n        };",
  "unit variants are written with write_str: width/fill/precision ignored")
# ---- C18
m("c18_lowercased", ["C18"], FS, "                quote! { ::core::result::Result::Err(#fn_path(s)) },", "                quote! { ::core::result::Result::Err(#fn_path(&s.to_lowercase())) },",
  "the custom error fn receives the lower-cased input")
# ---- C19
m("c19_std_option", ["C19"], IT, "    arms.push(quote! { _ => ::core::option::Option::None });\n    let iter_name", "    arms.push(quote! { _ => ::std::option::Option::None });\n    let iter_name",
  "one template spells ::std::option::Option")
m("c19_hard_coded_strum", ["C19"], EC, "        impl #impl_generics #strum_module_path::EnumCount for #name #ty_generics #where_clause {", "        impl #impl_generics ::strum::EnumCount for #name #ty_generics #where_clause {",
  "EnumCount hard-codes ::strum instead of the configured crate path")
m("c19_unrooted_core", ["C19"], TB, "        impl<T> ::core::ops::IndexMut<#name> for #table_name<T> {", "        impl<T> core::ops::IndexMut<#name> for #table_name<T> {",
  "a template spells core:: without the leading `::` (captured by a local `mod core`)")
# ---- C20
m("c20_unwrap", ["C20"], EC, "            if v.get_variant_properties()?.disabled.is_none() {", "            if v.get_variant_properties().unwrap().disabled.is_none() {",
  "EnumCount unwraps the attribute parser's result (macro panic on malformed attributes)")
m("c20_silent_non_enum", ["C20"], VN, "        _ => return Err(non_enum_error()),", "        _ => return Ok(TokenStream::new()),",
  "VariantNames on a struct silently expands to nothing")
m("c20_ok_dropped", ["C20"], "strum_macros/src/macros/enum_table.rs", "        if variant.get_variant_properties()?.disabled.is_some() {", "        if variant.get_variant_properties().map(|p| p.disabled.is_some()).unwrap_or(false) {",
  "EnumTable swallows attribute errors")

# helper edits needed by some mutants (applied together with the mutant)
HELPERS = {
    "c09_ref_conversion": [(DS, "    let from_fn_body = quote! { match val { #(#arms),* } };",
                            "    let from_fn_body = quote! { match val { #(#arms),* } };\n    let from_ref_fn_body = { let mut a2 = arms.clone(); let n = a2.len(); if n >= 3 { let idents: Vec<_> = variants.iter().map(|v| &v.ident).collect(); let (x, y) = (idents[n - 2], idents[n - 1]); a2[n - 2] = { let v = &variants[n - 2]; let params = match &v.fields { Fields::Unit => quote! {}, Fields::Unnamed(_) => quote! { (..) }, Fields::Named(_) => quote! { { .. } } }; quote! { #name::#x #params => #discriminants_name::#y } }; } quote! { match val { #(#a2),* } } };")],
    "c10_all_ok_reversed": [(TB, "    let doc_new = format!(", "    let rev_idents: Vec<_> = snake_idents.iter().rev().collect();\n    let doc_new = format!(")],
    "c20_silent_non_enum": [(VN, "use proc_macro2::TokenStream;", "use proc_macro2::TokenStream;")],
}

CONTROLS = {"c03_into_str_const_uncased", "c05_next_back_off_by_one"}


# ------------------------------------------------------------------------------------------------
# behaviour-preserving refactors: every check must stay silent (run with --all-props)
# ------------------------------------------------------------------------------------------------
def ctl(id_, file, old, new, desc, helpers=None):
    m(id_, ["C%02d" % i for i in range(1, 21)], file, old, new, desc)
    CONTROLS.add(id_)
    if helpers:
        HELPERS[id_] = helpers


CONTROLS.update({"c03_into_str_const_uncased", "c05_next_back_off_by_one"})

ctl("r_display_match_ref", DI, "                match *self {\n                    #(#arms),*\n                }\n            }\n        }\n    })\n}\n\nfn capture_format_string_idents",
    "                match self {\n                    #(#arms),*\n                }\n            }\n        }\n    })\n}\n\nfn capture_format_string_idents",
    "Display matches on `self` instead of `*self`")
ctl("r_iter_fields_renamed", IT, "            idx: usize,\n            back_idx: usize,\n            marker:", "            front: usize,\n            back: usize,\n            marker:",
    "iterator cursors renamed (idx -> front, back_idx -> back)",
    helpers=[(IT, "                #iter_name {\n                    idx: 0,\n                    back_idx: 0,", "                #iter_name {\n                    front: 0,\n                    back: 0,"),
             (IT, "let t = if self.idx + self.back_idx >= #variant_count { 0 } else { #variant_count - self.idx - self.back_idx };", "let t = if self.front + self.back >= #variant_count { 0 } else { #variant_count - self.front - self.back };"),
             (IT, "                let idx = self.idx.saturating_add(n).saturating_add(1);\n                if idx.saturating_add(self.back_idx) > #variant_count {", "                let idx = self.front.saturating_add(n).saturating_add(1);\n                if idx.saturating_add(self.back) > #variant_count {"),
             (IT, "                    self.idx = #variant_count;\n                    ::core::option::Option::None\n                } else {\n                    self.idx = idx;", "                    self.front = #variant_count;\n                    ::core::option::Option::None\n                } else {\n                    self.front = idx;"),
             (IT, "                let back_idx = self.back_idx + 1;\n\n                if self.idx + back_idx > #variant_count {", "                let back_idx = self.back + 1;\n\n                if self.front + back_idx > #variant_count {"),
             (IT, "                    self.back_idx = #variant_count;\n                    ::core::option::Option::None\n                } else {\n                    self.back_idx = back_idx;\n                    #iter_name::get(self, #variant_count - self.back_idx)", "                    self.back = #variant_count;\n                    ::core::option::Option::None\n                } else {\n                    self.back = back_idx;\n                    #iter_name::get(self, #variant_count - self.back)"),
             (IT, "                    idx: self.idx,\n                    back_idx: self.back_idx,", "                    front: self.front,\n                    back: self.back,")])
ctl("r_generator_fn_renamed", VP, "    pub fn get_preferred_name(\n", "    pub fn preferred_name(\n", "generator helper get_preferred_name renamed",
    helpers=[(DI, "            .get_preferred_name(type_properties.case_style, type_properties.prefix.as_ref());", "            .preferred_name(type_properties.case_style, type_properties.prefix.as_ref());"),
             (AR, "            .get_preferred_name(type_properties.case_style, type_properties.prefix.as_ref());", "            .preferred_name(type_properties.case_style, type_properties.prefix.as_ref());"),
             ("strum_macros/src/macros/strings/to_string.rs", "            .get_preferred_name(type_properties.case_style, type_properties.prefix.as_ref());", "            .preferred_name(type_properties.case_style, type_properties.prefix.as_ref());"),
             (VN, "                .get_preferred_name(type_properties.case_style, type_properties.prefix.as_ref()))", "                .preferred_name(type_properties.case_style, type_properties.prefix.as_ref()))")])
ctl("r_is_matches", IS, "                    match self {\n                        &#enum_name::#variant_name { .. } => true,\n                        _ => false\n                    }", "                    matches!(self, &#enum_name::#variant_name { .. })",
    "EnumIs predicates use matches!")
ctl("r_from_repr_nested_ok", FR, "        arms.push(quote! {v if v == #const_var_ident => ::core::option::Option::Some(#name::#ident #params)});", "        arms.push(quote! {v if #const_var_ident == v => ::core::option::Option::Some(#name::#ident #params)});",
    "from_repr guard written as `CONST == v`")
ctl("r_from_str_no_return", FS, "            ::core::result::Result::Ok(match s {\n                #(#standard_match_arms)*\n                _ => return #default,\n            })", "            match s {\n                #(#standard_match_arms)*\n                _ => #default,\n            }",
    "from_str wraps every arm in Ok(..) instead of wrapping the match and returning from the wildcard",
    helpers=[(FS, "                    standard_match_arms.push(quote! { s if s.eq_ignore_ascii_case(#serialization) => #name::#ident #params, });", "                    standard_match_arms.push(quote! { s if s.eq_ignore_ascii_case(#serialization) => ::core::result::Result::Ok(#name::#ident #params), });"),
             (FS, "                    quote! { #serialization => #name::#ident #params, }\n                } else {\n                    quote! { s if s.eq_ignore_ascii_case(#serialization) => #name::#ident #params, }\n                });",
              "                    quote! { #serialization => ::core::result::Result::Ok(#name::#ident #params), }\n                } else {\n                    quote! { s if s.eq_ignore_ascii_case(#serialization) => ::core::result::Result::Ok(#name::#ident #params), }\n                });")])
ctl("r_table_field_prefix", TB, "        let snake_case = format_ident!(\"_{}\", snakify(&pascal_case.to_string()));", "        let snake_case = format_ident!(\"slot_{}\", snakify(&pascal_case.to_string()));",
    "EnumTable slot fields get another private prefix")
ctl("r_count_loop", EC, "        Data::Enum(v) => v.variants.iter().try_fold(0usize, |acc, v| {\n            if v.get_variant_properties()?.disabled.is_none() {\n                Ok::<usize, syn::Error>(acc + 1usize)\n            } else {\n                Ok::<usize, syn::Error>(acc)\n            }\n        })?,",
    "        Data::Enum(v) => {\n            let mut count = 0usize;\n            for v in &v.variants {\n                if v.get_variant_properties()?.disabled.is_none() {\n                    count += 1;\n                }\n            }\n            count\n        }",
    "EnumCount counts with a loop instead of try_fold")
