#!/usr/bin/env python3
"""Freeze the decision-atom inventory (G8) of the CURRENT /repo tree into py/vetted_atoms.json.
Run by hand after reading every new atom (`--show` lists them per derive); never run by a check."""
import json, os, sys
HERE = os.path.dirname(os.path.abspath(__file__))
sys.path.insert(0, os.path.join(os.path.dirname(HERE), "py"))
import common, grules as G
gen = G.Gen(common.extract_repo(need=[]))
per = G.atoms_per_derive(gen)
if "--show" in sys.argv:
    for d in sorted(per):
        for a, v in sorted(per[d].items()):
            print(d, "|", a, "|", v[0], "|", v[1])
else:
    json.dump({"_doc": "G8 inventory of content/position inspecting decision atoms per derive, vetted by reading (DESIGN.md 14.6)",
               "per_derive": {d: sorted(per[d]) for d in sorted(per)},
               "examples": {d: {a: {"fn": v[0], "text": v[1]} for a, v in per[d].items()} for d in per}},
              open(os.path.join(os.path.dirname(HERE), "py", "vetted_atoms.json"), "w"), indent=1)
    print({d: len(per[d]) for d in sorted(per)})
