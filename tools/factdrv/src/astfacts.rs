//! Facts taken from the expanded AST (after_expansion): ADT definitions with *all* attributes
//! (helper attributes such as `#[strum(..)]` do not survive into HIR) and `format_args!` nodes.
use crate::json::J;
use rustc_ast as ast;
use rustc_ast::token::{self, TokenKind};
use rustc_ast::tokenstream::{TokenStream, TokenTree};
use rustc_ast::visit::{self, Visitor};
use rustc_ast_pretty::pprust;
use rustc_middle::ty::TyCtxt;
use rustc_span::def_id::LocalDefId;
use rustc_span::Span;
use std::collections::HashMap;

#[derive(Default)]
pub struct AstFacts {
    pub adts: Vec<(Option<LocalDefId>, Span, J)>,
    /// (enclosing fn, ordinal in pre-order) -> format_args description
    pub fmt: HashMap<(LocalDefId, usize), J>,
}

pub fn cook_token_lit(lit: token::Lit) -> J {
    let mut o = J::obj();
    o.put("t", "lit");
    o.put("lk", format!("{:?}", lit.kind));
    o.put("raw", lit.symbol.as_str());
    if let Some(sfx) = lit.suffix {
        o.put("suffix", sfx.as_str());
    }
    match ast::LitKind::from_token_lit(lit) {
        Ok(ast::LitKind::Str(s, _)) => {
            o.put("ty", "str");
            o.put("v", s.as_str());
        }
        Ok(ast::LitKind::Int(v, _)) => {
            o.put("ty", "int");
            o.put("v", J::Str(v.get().to_string()));
        }
        Ok(ast::LitKind::Bool(b)) => {
            o.put("ty", "bool");
            o.put("v", b);
        }
        Ok(ast::LitKind::Char(c)) => {
            o.put("ty", "char");
            o.put("v", c.to_string());
        }
        Ok(ast::LitKind::Float(s, _)) => {
            o.put("ty", "float");
            o.put("v", s.as_str());
        }
        Ok(ast::LitKind::Byte(b)) => {
            o.put("ty", "byte");
            o.put("v", b as usize);
        }
        Ok(ast::LitKind::ByteStr(..)) => {
            o.put("ty", "bytes");
        }
        Ok(ast::LitKind::CStr(..)) => {
            o.put("ty", "cstr");
        }
        _ => {
            o.put("ty", "other");
        }
    }
    o
}

fn tokens_json(ts: &TokenStream) -> J {
    let mut out = Vec::new();
    for tt in ts.iter() {
        match tt {
            TokenTree::Token(tok, _) => match &tok.kind {
                TokenKind::Ident(sym, raw) => {
                    let name = sym.as_str();
                    if name == "true" || name == "false" {
                        out.push(J::obj().set("t", "lit").set("ty", "bool").set("v", name == "true").set("raw", name));
                    } else {
                        out.push(J::obj().set("t", "ident").set("v", name).set("rawid", matches!(raw, token::IdentIsRaw::Yes)));
                    }
                }
                TokenKind::NtIdent(id, raw) => {
                    out.push(J::obj().set("t", "ident").set("v", id.name.as_str()).set("rawid", matches!(raw, token::IdentIsRaw::Yes)));
                }
                TokenKind::Lifetime(sym, _) => {
                    out.push(J::obj().set("t", "lifetime").set("v", sym.as_str()));
                }
                TokenKind::Literal(lit) => out.push(cook_token_lit(*lit)),
                k => {
                    out.push(J::obj().set("t", "punct").set("v", pprust::token_kind_to_string(k).to_string()));
                }
            },
            TokenTree::Delimited(_, _, delim, inner) => {
                let d = match delim {
                    token::Delimiter::Parenthesis => "(",
                    token::Delimiter::Brace => "{",
                    token::Delimiter::Bracket => "[",
                    _ => "",
                };
                if d.is_empty() {
                    // invisible group: splice
                    if let J::Arr(v) = tokens_json(inner) {
                        out.extend(v);
                    }
                } else {
                    out.push(J::obj().set("t", "group").set("d", d).set("ts", tokens_json(inner)));
                }
            }
        }
    }
    J::Arr(out)
}

fn attr_json(a: &ast::Attribute) -> J {
    match &a.kind {
        ast::AttrKind::DocComment(_, sym) => J::obj().set("path", "doc").set("doc", sym.as_str()).set("sugared", true),
        ast::AttrKind::Normal(n) => {
            let path = pprust::path_to_string(&n.item.path);
            let mut o = J::obj().set("path", path.clone());
            match &n.item.args {
                ast::AttrItemKind::Unparsed(args) => match args {
                    ast::AttrArgs::Empty => {
                        o.put("form", "word");
                    }
                    ast::AttrArgs::Delimited(d) => {
                        o.put("form", "list");
                        o.put("tokens", tokens_json(&d.tokens));
                    }
                    ast::AttrArgs::Eq { expr, .. } => {
                        o.put("form", "eq");
                        if let ast::ExprKind::Lit(l) = &expr.kind {
                            let c = cook_token_lit(*l);
                            if path == "doc" {
                                if let J::Obj(fields) = &c {
                                    for (k, v) in fields {
                                        if k == "v" {
                                            o.put("doc", v.clone());
                                        }
                                    }
                                }
                            }
                            o.put("value", c);
                        } else {
                            o.put("value_text", pprust::expr_to_string(expr));
                        }
                    }
                },
                ast::AttrItemKind::Parsed(_) => {
                    o.put("form", "parsed");
                }
            }
            o.put("text", pprust::attribute_to_string(a));
            o
        }
    }
}

fn attrs_json(attrs: &[ast::Attribute]) -> J {
    J::Arr(attrs.iter().map(attr_json).collect())
}

fn fields_json(vd: &ast::VariantData) -> (&'static str, J) {
    let (kind, fields): (&str, &[ast::FieldDef]) = match vd {
        ast::VariantData::Struct { fields, .. } => ("named", fields),
        ast::VariantData::Tuple(fields, _) => ("tuple", fields),
        ast::VariantData::Unit(_) => ("unit", &[]),
    };
    let fs = fields
        .iter()
        .map(|f| {
            J::obj()
                .set("name", f.ident.map(|i| i.name.as_str().to_string()))
                .set("ty", pprust::ty_to_string(&f.ty))
                .set("is_ref", matches!(f.ty.kind, ast::TyKind::Ref(..) | ast::TyKind::PinnedRef(..)))
                .set("attrs", attrs_json(&f.attrs))
        })
        .collect();
    (kind, J::Arr(fs))
}

fn generics_json(g: &ast::Generics) -> J {
    let mut lts = Vec::new();
    let mut tys = Vec::new();
    let mut cs = Vec::new();
    for p in &g.params {
        match &p.kind {
            ast::GenericParamKind::Lifetime => lts.push(J::s(p.ident.name.as_str())),
            ast::GenericParamKind::Type { default } => tys.push(
                J::obj()
                    .set("name", p.ident.name.as_str())
                    .set("bounds", pprust::bounds_to_string(&p.bounds))
                    .set("default", default.as_ref().map(|d| pprust::ty_to_string(d))),
            ),
            ast::GenericParamKind::Const { ty, .. } => {
                cs.push(J::obj().set("name", p.ident.name.as_str()).set("ty", pprust::ty_to_string(ty)))
            }
        }
    }
    J::obj()
        .set("lifetimes", lts)
        .set("types", tys)
        .set("consts", cs)
        .set("has_where", !g.where_clause.predicates.is_empty())
}

struct V<'a, 'tcx> {
    tcx: TyCtxt<'tcx>,
    map: &'a rustc_ast::node_id::NodeMap<LocalDefId>,
    out: AstFacts,
    fn_stack: Vec<(LocalDefId, usize)>,
}

impl<'a, 'tcx> V<'a, 'tcx> {
    fn span_str(&self, sp: Span) -> String {
        crate::hirfacts::span_str(self.tcx, sp)
    }

    fn adt(&mut self, item: &ast::Item) {
        let (kind, ident, generics) = match &item.kind {
            ast::ItemKind::Enum(id, g, _) => ("enum", id, g),
            ast::ItemKind::Struct(id, g, _) => ("struct", id, g),
            ast::ItemKind::Union(id, g, _) => ("union", id, g),
            _ => return,
        };
        let mut o = J::obj();
        o.put("name", ident.name.as_str());
        o.put("kind", kind);
        o.put("ident_span", self.span_str(ident.span));
        o.put("from_expansion", ident.span.from_expansion() || item.span.from_expansion());
        o.put("vis", pprust::vis_to_string(&item.vis));
        o.put("generics", generics_json(generics));
        o.put("attrs", attrs_json(&item.attrs));
        match &item.kind {
            ast::ItemKind::Enum(_, _, def) => {
                let vs = def
                    .variants
                    .iter()
                    .map(|v| {
                        let (k, fs) = fields_json(&v.data);
                        J::obj()
                            .set("name", v.ident.name.as_str())
                            .set("raw_ident", v.ident.is_raw_guess())
                            .set("kind", k)
                            .set("fields", fs)
                            .set("attrs", attrs_json(&v.attrs))
                            .set("disc_expr", v.disr_expr.as_ref().map(|d| pprust::expr_to_string(&d.value)))
                    })
                    .collect();
                o.put("variants", J::Arr(vs));
            }
            ast::ItemKind::Struct(_, _, vd) | ast::ItemKind::Union(_, _, vd) => {
                let (k, fs) = fields_json(vd);
                o.put("struct_kind", k);
                o.put("fields", fs);
            }
            _ => {}
        }
        let did = self.map.get(&item.id).copied();
        self.out.adts.push((did, ident.span, o));
    }

    fn fmt_args(&mut self, fa: &ast::FormatArgs) {
        let Some(top) = self.fn_stack.last_mut() else { return };
        let key = (top.0, top.1);
        top.1 += 1;
        let mut o = J::obj();
        let (lk, sym) = fa.uncooked_fmt_str;
        o.put("fmt_str", cook_token_lit(token::Lit { kind: lk, symbol: sym, suffix: None }));
        o.put("is_source_literal", fa.is_source_literal);
        let mut pieces = Vec::new();
        for p in &fa.template {
            match p {
                ast::FormatArgsPiece::Literal(s) => pieces.push(J::obj().set("lit", s.as_str())),
                ast::FormatArgsPiece::Placeholder(ph) => {
                    let idx = match ph.argument.index {
                        Ok(i) => i as i128,
                        Err(_) => -1,
                    };
                    pieces.push(
                        J::obj()
                            .set("arg", idx)
                            .set("pos_kind", format!("{:?}", ph.argument.kind))
                            .set("trait", format!("{:?}", ph.format_trait))
                            .set("options", format!("{:?}", ph.format_options)),
                    );
                }
            }
        }
        o.put("pieces", J::Arr(pieces));
        let mut args = Vec::new();
        for a in fa.arguments.all_args() {
            let (k, name) = match &a.kind {
                ast::FormatArgumentKind::Normal => ("normal", None),
                ast::FormatArgumentKind::Named(id) => ("named", Some(id.name.as_str().to_string())),
                ast::FormatArgumentKind::Captured(id) => ("captured", Some(id.name.as_str().to_string())),
            };
            args.push(J::obj().set("kind", k).set("name", name).set("expr", pprust::expr_to_string(&a.expr)));
        }
        o.put("args", J::Arr(args));
        self.out.fmt.insert(key, o);
    }
}

impl<'a, 'tcx, 'ast> Visitor<'ast> for V<'a, 'tcx> {
    fn visit_item(&mut self, item: &'ast ast::Item) {
        self.adt(item);
        let pushed = if let ast::ItemKind::Fn(..) = &item.kind {
            if let Some(d) = self.map.get(&item.id) {
                self.fn_stack.push((*d, 0));
                true
            } else {
                false
            }
        } else {
            false
        };
        visit::walk_item(self, item);
        if pushed {
            self.fn_stack.pop();
        }
    }

    fn visit_assoc_item(&mut self, item: &'ast ast::AssocItem, ctxt: visit::AssocCtxt) {
        let pushed = if let ast::AssocItemKind::Fn(..) = &item.kind {
            if let Some(d) = self.map.get(&item.id) {
                self.fn_stack.push((*d, 0));
                true
            } else {
                false
            }
        } else {
            false
        };
        visit::walk_assoc_item(self, item, ctxt);
        if pushed {
            self.fn_stack.pop();
        }
    }

    fn visit_expr(&mut self, e: &'ast ast::Expr) {
        if let ast::ExprKind::FormatArgs(fa) = &e.kind {
            self.fmt_args(fa);
            return; // mirrored on the HIR side: nested format_args are not numbered
        }
        visit::walk_expr(self, e);
    }
}

pub fn collect<'tcx>(tcx: TyCtxt<'tcx>) -> AstFacts {
    let steal = tcx.resolver_for_lowering();
    let guard = steal.borrow();
    let (resolver, krate) = &*guard;
    let mut v = V { tcx, map: &resolver.node_id_to_def_id, out: AstFacts::default(), fn_stack: Vec::new() };
    visit::walk_crate(&mut v, krate);
    v.out
}

pub fn emit_adts<'tcx>(tcx: TyCtxt<'tcx>, ast: &AstFacts) -> J {
    let mut out = Vec::new();
    for (did, _sp, j) in &ast.adts {
        let mut j = j.clone();
        if let Some(d) = did {
            j.put("def", crate::hirfacts::def_str(tcx, d.to_def_id()));
        } else {
            j.put("def", J::Null);
        }
        out.push(j);
    }
    J::Arr(out)
}
