//! Generator mode: facts about strum_macros' own functions (engine G).
use crate::json::J;
use rustc_middle::ty::TyCtxt;

pub fn gen_fns<'tcx>(_tcx: TyCtxt<'tcx>) -> J {
    J::Arr(Vec::new())
}
