//! Generator mode: facts about strum_macros' own functions (engine G): one HIR expression tree per
//! fn (closures inline), with resolved callees and the type of every call / method-call expression,
//! plus the `#[proc_macro_derive]` entry points.
use crate::astfacts::AstFacts;
use crate::hirfacts::{body_tree_typed, def_str, span_str};
use crate::json::J;
use rustc_hir as hir;
use rustc_hir::attrs::AttributeKind;
use rustc_middle::ty::TyCtxt;

pub fn gen_fns<'tcx>(tcx: TyCtxt<'tcx>, ast: &AstFacts) -> J {
    let mut out = Vec::new();
    let items = tcx.hir_crate_items(());
    for id in items.free_items() {
        let item = tcx.hir_item(id);
        let did = id.owner_id.def_id;
        match &item.kind {
            hir::ItemKind::Fn { ident, body, .. } => {
                let mut o = J::obj().set("path", def_str(tcx, did.to_def_id())).set("name", ident.name.as_str()).set("kind", "fn");
                o.put("span", span_str(tcx, item.span));
                let attrs = tcx.hir_attrs(item.hir_id());
                let mut entry: Option<String> = None;
                let mut deprecated = false;
                for a in attrs {
                    if let hir::Attribute::Parsed(AttributeKind::ProcMacroDerive { trait_name, .. }) = a {
                        entry = Some(trait_name.as_str().to_string());
                    }
                    if let hir::Attribute::Parsed(AttributeKind::Deprecated { .. }) = a {
                        deprecated = true;
                    }
                }
                o.put("entry_derive", entry);
                o.put("deprecated", deprecated);
                o.put("in_test", in_cfg_test(tcx, did));
                o.put("sig", crate::hirfacts::fn_sig_json(tcx, did.to_def_id()));
                o.put("body", body_tree_typed(tcx, ast, did, *body));
                out.push(o);
            }
            hir::ItemKind::Impl(imp) => {
                let self_ty = rustc_hir_pretty::ty_to_string(&tcx, imp.self_ty);
                let tr = imp.of_trait.map(|h| {
                    let p = h.trait_ref.path;
                    match p.res {
                        hir::def::Res::Def(_, d) => def_str(tcx, d),
                        _ => String::from("?"),
                    }
                });
                for iid in imp.items {
                    let ii = tcx.hir_impl_item(*iid);
                    if let hir::ImplItemKind::Fn(_, body) = &ii.kind {
                        let idid = ii.owner_id.def_id;
                        let mut o = J::obj().set("path", def_str(tcx, idid.to_def_id())).set("name", ii.ident.name.as_str()).set("kind", "assoc_fn");
                        o.put("span", span_str(tcx, ii.span));
                        o.put("impl_self", self_ty.clone());
                        o.put("impl_trait", tr.clone());
                        o.put("entry_derive", J::Null);
                        o.put("in_test", in_cfg_test(tcx, idid));
                        o.put("sig", crate::hirfacts::fn_sig_json(tcx, idid.to_def_id()));
                        o.put("body", body_tree_typed(tcx, ast, idid, *body));
                        out.push(o);
                    }
                }
            }
            hir::ItemKind::Const(ident, _, ty, hir::ConstItemRhs::Body(b)) => {
                let mut o = J::obj().set("path", def_str(tcx, did.to_def_id())).set("name", ident.name.as_str()).set("kind", "const");
                o.put("ty", rustc_hir_pretty::ty_to_string(&tcx, ty));
                o.put("in_test", in_cfg_test(tcx, did));
                o.put("body", body_tree_typed(tcx, ast, did, *b));
                out.push(o);
            }
            _ => {}
        }
    }
    J::Arr(out)
}

/// Is the item inside a `#[cfg(test)] mod`? (under `--test` those are compiled in.)
fn in_cfg_test<'tcx>(tcx: TyCtxt<'tcx>, did: rustc_span::def_id::LocalDefId) -> bool {
    let mut cur = tcx.parent_module_from_def_id(did);
    loop {
        let name = tcx.opt_item_name(cur.to_def_id());
        if let Some(n) = name {
            if n.as_str() == "tests" || n.as_str() == "test" {
                return true;
            }
        }
        if cur.to_def_id().is_crate_root() {
            return false;
        }
        cur = tcx.parent_module_from_def_id(cur.to_local_def_id());
    }
}
