//! Minimal JSON value + writer (the driver has no cargo dependencies).
use std::fmt::Write;

#[derive(Clone, Debug)]
pub enum J {
    Null,
    Bool(bool),
    Int(i128),
    Str(String),
    Arr(Vec<J>),
    Obj(Vec<(String, J)>),
}

impl J {
    pub fn s<T: Into<String>>(t: T) -> J {
        J::Str(t.into())
    }
    pub fn obj() -> J {
        J::Obj(Vec::new())
    }
    pub fn k(kind: &str) -> J {
        J::Obj(vec![("k".to_string(), J::s(kind))])
    }
    pub fn set<T: Into<J>>(mut self, key: &str, v: T) -> J {
        if let J::Obj(ref mut o) = self {
            o.push((key.to_string(), v.into()));
        }
        self
    }
    pub fn put<T: Into<J>>(&mut self, key: &str, v: T) {
        if let J::Obj(ref mut o) = self {
            o.push((key.to_string(), v.into()));
        }
    }
    pub fn opt<T: Into<J>>(v: Option<T>) -> J {
        match v {
            Some(x) => x.into(),
            None => J::Null,
        }
    }
    pub fn write(&self, out: &mut String) {
        match self {
            J::Null => out.push_str("null"),
            J::Bool(b) => out.push_str(if *b { "true" } else { "false" }),
            J::Int(i) => {
                let _ = write!(out, "{}", i);
            }
            J::Str(s) => write_str(s, out),
            J::Arr(a) => {
                out.push('[');
                for (i, x) in a.iter().enumerate() {
                    if i > 0 {
                        out.push(',');
                    }
                    x.write(out);
                }
                out.push(']');
            }
            J::Obj(o) => {
                out.push('{');
                for (i, (k, v)) in o.iter().enumerate() {
                    if i > 0 {
                        out.push(',');
                    }
                    write_str(k, out);
                    out.push(':');
                    v.write(out);
                }
                out.push('}');
            }
        }
    }
}

fn write_str(s: &str, out: &mut String) {
    out.push('"');
    for c in s.chars() {
        match c {
            '"' => out.push_str("\\\""),
            '\\' => out.push_str("\\\\"),
            '\n' => out.push_str("\\n"),
            '\r' => out.push_str("\\r"),
            '\t' => out.push_str("\\t"),
            c if (c as u32) < 0x20 => {
                let _ = write!(out, "\\u{:04x}", c as u32);
            }
            c => out.push(c),
        }
    }
    out.push('"');
}

impl From<&str> for J {
    fn from(s: &str) -> J {
        J::Str(s.to_string())
    }
}
impl From<String> for J {
    fn from(s: String) -> J {
        J::Str(s)
    }
}
impl From<bool> for J {
    fn from(b: bool) -> J {
        J::Bool(b)
    }
}
impl From<usize> for J {
    fn from(b: usize) -> J {
        J::Int(b as i128)
    }
}
impl From<i128> for J {
    fn from(b: i128) -> J {
        J::Int(b)
    }
}
impl From<u128> for J {
    fn from(b: u128) -> J {
        // values beyond i128 are emitted as strings by callers
        J::Int(b as i128)
    }
}
impl From<Vec<J>> for J {
    fn from(v: Vec<J>) -> J {
        J::Arr(v)
    }
}
impl<T: Into<J>> From<Option<T>> for J {
    fn from(v: Option<T>) -> J {
        match v {
            Some(x) => x.into(),
            None => J::Null,
        }
    }
}
