//! factdrv — fact extraction driver for the strum verification harness.
//!
//! Used as RUSTC_WORKSPACE_WRAPPER: argv = [factdrv, <rustc path>, rustc args...].
//! When FACTDRV_OUT is set, every compiled crate gets one JSON fact file
//! `<FACTDRV_OUT>/<crate>-<extra-filename>.json`, written in a single write at the end of analysis.
//! Compilation always continues normally so that dependants build.
#![feature(rustc_private)]
#![allow(clippy::all)]

extern crate rustc_abi;
extern crate rustc_ast;
extern crate rustc_ast_pretty;
extern crate rustc_driver;
extern crate rustc_hir;
extern crate rustc_hir_pretty;
extern crate rustc_interface;
extern crate rustc_middle;
extern crate rustc_session;
extern crate rustc_span;

mod astfacts;
mod genfacts;
mod hirfacts;
mod json;
mod mirfacts;

use json::J;
use rustc_driver::{Callbacks, Compilation};
use rustc_interface::interface;
use rustc_middle::ty::TyCtxt;

pub struct Facts {
    pub out_dir: Option<String>,
    pub file_stem: String,
    pub ast: Option<astfacts::AstFacts>,
}

impl Callbacks for Facts {
    fn after_expansion<'tcx>(&mut self, _c: &interface::Compiler, tcx: TyCtxt<'tcx>) -> Compilation {
        if self.out_dir.is_some() {
            self.ast = Some(astfacts::collect(tcx));
        }
        Compilation::Continue
    }

    fn after_analysis<'tcx>(&mut self, _c: &interface::Compiler, tcx: TyCtxt<'tcx>) -> Compilation {
        let Some(out_dir) = self.out_dir.clone() else {
            return Compilation::Continue;
        };
        if tcx.dcx().has_errors().is_some() {
            return Compilation::Continue;
        }
        let ast = self.ast.take().unwrap_or_default();
        let crate_name = tcx.crate_name(rustc_span::def_id::LOCAL_CRATE).to_string();
        let mut root = J::obj();
        root.put("crate", crate_name.clone());
        root.put("crate_types", J::Arr(tcx.crate_types().iter().map(|t| J::s(format!("{:?}", t))).collect()));
        root.put("is_test", tcx.sess.is_test_crate());
        root.put("adts", astfacts::emit_adts(tcx, &ast));
        root.put("adt_sem", hirfacts::adt_sem(tcx));
        root.put("generated", hirfacts::generated(tcx, &ast));
        root.put("traits", hirfacts::traits(tcx));
        if crate_name == "strum_macros" || std::env::var("FACTDRV_GENMODE").is_ok() {
            root.put("gen_fns", genfacts::gen_fns(tcx, &ast));
        }
        let mut s = String::new();
        root.write(&mut s);
        let path = format!("{}/{}.json", out_dir, self.file_stem);
        let tmp = format!("{}.tmp{}", path, std::process::id());
        std::fs::write(&tmp, s).expect("factdrv: cannot write fact file");
        std::fs::rename(&tmp, &path).expect("factdrv: cannot rename fact file");
        Compilation::Continue
    }
}

fn main() -> std::process::ExitCode {
    let mut args: Vec<String> = std::env::args().collect();
    // RUSTC_WORKSPACE_WRAPPER convention: argv[1] is the path of the real rustc.
    if args.len() > 1 && (args[1].ends_with("rustc") || args[1].contains("/rustc")) {
        args.remove(1);
    }
    let mut crate_name = String::from("unknown");
    let mut extra = String::new();
    let mut i = 0;
    while i < args.len() {
        if args[i] == "--crate-name" && i + 1 < args.len() {
            crate_name = args[i + 1].clone();
        }
        if args[i] == "-C" && i + 1 < args.len() {
            if let Some(e) = args[i + 1].strip_prefix("extra-filename=") {
                extra = e.to_string();
            }
        }
        if let Some(e) = args[i].strip_prefix("-Cextra-filename=") {
            extra = e.to_string();
        }
        i += 1;
    }

    let out_dir = std::env::var("FACTDRV_OUT").ok();
    // Queries such as `--print=...` or `-vV` have no crate: pass through.
    let has_input = args.iter().any(|a| a.ends_with(".rs"));
    let mut facts = Facts {
        out_dir: if has_input { out_dir } else { None },
        file_stem: format!("{}{}", crate_name, extra),
        ast: None,
    };
    rustc_driver::catch_with_exit_code(|| rustc_driver::run_compiler(&args, &mut facts))
}
