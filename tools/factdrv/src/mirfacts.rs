//! Structured MIR of generated fns (engine A): locals, statements, terminators with resolved callees.
use crate::hirfacts::{def_str, ty_str};
use crate::json::J;
use rustc_middle::mir::{self, AggregateKind, BinOp, Operand, Place, ProjectionElem, Rvalue, StatementKind, TerminatorKind};
use rustc_middle::ty::{self, TyCtxt};
use rustc_span::def_id::LocalDefId;

fn place_json<'tcx>(tcx: TyCtxt<'tcx>, body: &mir::Body<'tcx>, p: &Place<'tcx>) -> J {
    let mut proj = Vec::new();
    let mut t = mir::PlaceTy::from_ty(body.local_decls[p.local].ty);
    for e in p.projection.iter() {
        match e {
            ProjectionElem::Deref => proj.push(J::obj().set("p", "deref")),
            ProjectionElem::Field(f, _) => {
                let mut name: Option<String> = None;
                if let ty::Adt(def, _) = t.ty.kind() {
                    let v = match t.variant_index {
                        Some(vi) => def.variant(vi),
                        None if def.is_struct() || def.is_union() => def.non_enum_variant(),
                        None => def.variant(rustc_abi::VariantIdx::from_u32(0)),
                    };
                    if let Some(fd) = v.fields.get(f) {
                        name = Some(fd.name.as_str().to_string());
                    }
                }
                proj.push(J::obj().set("p", "field").set("i", f.as_usize()).set("name", name));
            }
            ProjectionElem::Downcast(sym, vi) => {
                proj.push(J::obj().set("p", "downcast").set("variant", sym.map(|s| s.as_str().to_string())).set("i", vi.as_usize()));
            }
            other => proj.push(J::obj().set("p", "other").set("text", format!("{:?}", other))),
        }
        t = t.projection_ty(tcx, e);
    }
    J::obj().set("local", p.local.as_usize()).set("proj", J::Arr(proj)).set("ty", ty_str(t.ty))
}

fn const_json<'tcx>(tcx: TyCtxt<'tcx>, c: &mir::ConstOperand<'tcx>) -> J {
    let t = c.const_.ty();
    let mut o = J::obj().set("const_ty", ty_str(t));
    if let ty::FnDef(did, args) = t.kind() {
        o.put("fn", def_str(tcx, *did));
        o.put("fn_crate", tcx.crate_name(did.krate).to_string());
        let targs: Vec<J> = args.types().map(|a| J::s(ty_str(a))).collect();
        o.put("targs", J::Arr(targs));
        return o;
    }
    let env = ty::TypingEnv::fully_monomorphized();
    if let Some(si) = c.const_.try_eval_scalar_int(tcx, env) {
        let size = si.size();
        match t.kind() {
            ty::Int(_) => o.put("int", J::Str(si.to_int(size).to_string())),
            ty::Uint(_) => o.put("int", J::Str(si.to_uint(size).to_string())),
            ty::Bool => o.put("bool", si.to_uint(size) != 0),
            _ => o.put("bits", J::Str(si.to_uint(size).to_string())),
        }
    } else {
        o.put("text", format!("{}", c.const_));
    }
    o
}

fn operand_json<'tcx>(tcx: TyCtxt<'tcx>, body: &mir::Body<'tcx>, op: &Operand<'tcx>) -> J {
    match op {
        Operand::Copy(p) => J::obj().set("op", "copy").set("place", place_json(tcx, body, p)),
        Operand::Move(p) => J::obj().set("op", "move").set("place", place_json(tcx, body, p)),
        Operand::Constant(c) => J::obj().set("op", "const").set("c", const_json(tcx, c)),
        #[allow(unreachable_patterns)]
        other => J::obj().set("op", "other").set("text", format!("{:?}", other)),
    }
}

fn rvalue_json<'tcx>(tcx: TyCtxt<'tcx>, body: &mir::Body<'tcx>, rv: &Rvalue<'tcx>) -> J {
    match rv {
        Rvalue::Use(op, _) => J::obj().set("rv", "use").set("a", operand_json(tcx, body, op)),
        Rvalue::BinaryOp(op, ab) => {
            let name = match op {
                BinOp::Add => "Add",
                BinOp::AddWithOverflow => "AddWithOverflow",
                BinOp::AddUnchecked => "AddUnchecked",
                BinOp::Sub => "Sub",
                BinOp::SubWithOverflow => "SubWithOverflow",
                BinOp::SubUnchecked => "SubUnchecked",
                BinOp::Mul => "Mul",
                BinOp::MulWithOverflow => "MulWithOverflow",
                BinOp::Eq => "Eq",
                BinOp::Ne => "Ne",
                BinOp::Lt => "Lt",
                BinOp::Le => "Le",
                BinOp::Gt => "Gt",
                BinOp::Ge => "Ge",
                _ => "",
            };
            let n = if name.is_empty() { format!("{:?}", op) } else { name.to_string() };
            J::obj().set("rv", "bin").set("bop", n).set("a", operand_json(tcx, body, &ab.0)).set("b", operand_json(tcx, body, &ab.1))
        }
        Rvalue::UnaryOp(op, a) => J::obj().set("rv", "un").set("uop", format!("{:?}", op)).set("a", operand_json(tcx, body, a)),
        Rvalue::Ref(_, bk, p) => J::obj().set("rv", "ref").set("mut", matches!(bk, mir::BorrowKind::Mut { .. })).set("place", place_json(tcx, body, p)),
        Rvalue::RawPtr(_, p) => J::obj().set("rv", "rawptr").set("place", place_json(tcx, body, p)),
        Rvalue::CopyForDeref(p) => J::obj().set("rv", "use").set("a", J::obj().set("op", "copy").set("place", place_json(tcx, body, p))),
        Rvalue::Discriminant(p) => J::obj().set("rv", "discriminant").set("place", place_json(tcx, body, p)),
        Rvalue::Cast(k, a, t) => J::obj().set("rv", "cast").set("kind", format!("{:?}", k)).set("a", operand_json(tcx, body, a)).set("ty", ty_str(*t)),
        Rvalue::Aggregate(kind, ops) => {
            let mut o = J::obj().set("rv", "aggregate");
            match &**kind {
                AggregateKind::Tuple => o.put("agg", "tuple"),
                AggregateKind::Array(_) => o.put("agg", "array"),
                AggregateKind::Adt(did, vi, _, _, _) => {
                    o.put("agg", "adt");
                    o.put("adt", def_str(tcx, *did));
                    let adt = tcx.adt_def(*did);
                    let v = adt.variant(*vi);
                    o.put("variant", v.name.as_str());
                    o.put("variant_index", vi.as_usize());
                    o.put("fields", J::Arr(v.fields.iter().map(|f| J::s(f.name.as_str())).collect()));
                }
                other => o.put("agg", format!("{:?}", other)),
            }
            o.put("ops", J::Arr(ops.iter().map(|x| operand_json(tcx, body, x)).collect()));
            o
        }
        other => J::obj().set("rv", "other").set("text", format!("{:?}", other)),
    }
}

pub fn fn_mir<'tcx>(tcx: TyCtxt<'tcx>, did: LocalDefId) -> J {
    if !tcx.is_mir_available(did.to_def_id()) {
        return J::Null;
    }
    let body = tcx.optimized_mir(did.to_def_id());
    let mut locals = Vec::new();
    for (l, d) in body.local_decls.iter_enumerated() {
        let mut o = J::obj().set("id", l.as_usize()).set("ty", ty_str(d.ty));
        if l.as_usize() >= 1 && l.as_usize() <= body.arg_count {
            o.put("arg", l.as_usize() - 1);
        }
        locals.push(o);
    }
    // debug names
    let mut names = Vec::new();
    for vdi in &body.var_debug_info {
        if let mir::VarDebugInfoContents::Place(p) = &vdi.value {
            names.push(J::obj().set("name", vdi.name.as_str()).set("place", place_json(tcx, body, p)));
        }
    }
    let mut blocks = Vec::new();
    for (bb, data) in body.basic_blocks.iter_enumerated() {
        let mut stmts = Vec::new();
        for st in &data.statements {
            match &st.kind {
                StatementKind::Assign(b) => {
                    let (p, rv) = &**b;
                    stmts.push(J::obj().set("assign", place_json(tcx, body, p)).set("rv", rvalue_json(tcx, body, rv)));
                }
                StatementKind::SetDiscriminant { place, variant_index } => {
                    stmts.push(J::obj().set("set_discriminant", place_json(tcx, body, place)).set("variant_index", variant_index.as_usize()));
                }
                StatementKind::StorageLive(_) | StatementKind::StorageDead(_) | StatementKind::Nop | StatementKind::FakeRead(..) | StatementKind::PlaceMention(..)
                | StatementKind::AscribeUserType(..) | StatementKind::Coverage(..) | StatementKind::ConstEvalCounter | StatementKind::BackwardIncompatibleDropHint { .. } => {}
                other => stmts.push(J::obj().set("other", format!("{:?}", other))),
            }
        }
        let term = data.terminator();
        let tj = match &term.kind {
            TerminatorKind::Goto { target } => J::obj().set("t", "goto").set("target", target.as_usize()),
            TerminatorKind::SwitchInt { discr, targets } => {
                let ts: Vec<J> = targets.iter().map(|(v, b)| J::Arr(vec![J::Str(v.to_string()), J::Int(b.as_usize() as i128)])).collect();
                J::obj().set("t", "switch").set("discr", operand_json(tcx, body, discr)).set("targets", J::Arr(ts)).set("otherwise", targets.otherwise().as_usize())
            }
            TerminatorKind::Return => J::obj().set("t", "return"),
            TerminatorKind::Unreachable => J::obj().set("t", "unreachable"),
            TerminatorKind::Drop { target, .. } => J::obj().set("t", "goto").set("target", target.as_usize()).set("drop", true),
            TerminatorKind::Call { func, args, destination, target, .. } => {
                let a: Vec<J> = args.iter().map(|x| operand_json(tcx, body, &x.node)).collect();
                J::obj()
                    .set("t", "call")
                    .set("func", operand_json(tcx, body, func))
                    .set("args", J::Arr(a))
                    .set("dest", place_json(tcx, body, destination))
                    .set("target", target.map(|t| t.as_usize()))
            }
            TerminatorKind::Assert { cond, expected, msg, target, .. } => {
                let kind = match &**msg {
                    mir::AssertKind::Overflow(op, _, _) => format!("Overflow({:?})", op),
                    mir::AssertKind::BoundsCheck { .. } => "BoundsCheck".to_string(),
                    mir::AssertKind::DivisionByZero(_) => "DivisionByZero".to_string(),
                    mir::AssertKind::RemainderByZero(_) => "RemainderByZero".to_string(),
                    mir::AssertKind::OverflowNeg(_) => "OverflowNeg".to_string(),
                    other => format!("{:?}", std::mem::discriminant(other)),
                };
                J::obj().set("t", "assert").set("cond", operand_json(tcx, body, cond)).set("expected", *expected).set("kind", kind).set("target", target.as_usize())
            }
            TerminatorKind::UnwindResume | TerminatorKind::UnwindTerminate(_) => J::obj().set("t", "unwind"),
            other => J::obj().set("t", "other").set("text", format!("{:?}", std::mem::discriminant(other))),
        };
        blocks.push(J::obj().set("id", bb.as_usize()).set("cleanup", data.is_cleanup).set("stmts", J::Arr(stmts)).set("term", tj));
    }
    J::obj().set("arg_count", body.arg_count).set("locals", J::Arr(locals)).set("names", J::Arr(names)).set("blocks", J::Arr(blocks))
}
