//! Structured MIR of generated fns (engine A).
use crate::json::J;
use rustc_middle::ty::TyCtxt;
use rustc_span::def_id::LocalDefId;

pub fn fn_mir<'tcx>(_tcx: TyCtxt<'tcx>, _did: LocalDefId) -> J {
    J::Null
}
