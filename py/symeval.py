"""Normalisation of a generated function body into a decision tree (second-line recogniser).

The first-line recognisers (tables.py, props_tables.py) accept the shapes the generators emit today (Appendix B). A
behaviour-preserving change of that shape -- an early return, a hoisted `let`, a nested helper fn, `if` chains instead
of `match`, a length pre-check, `Some(match ..)` instead of `Some` in every arm, delegation to a sibling impl -- must not
raise an alarm, and a defect hidden in such a shape must be reported as what it is. When a first-line recogniser gives
up, the body is symbolically executed here:

  * inputs: the parameters with a *role* -- `self` (an enum value), a `&str`, an integer; everything else is opaque;
  * `let` bindings are substituted, nested / sibling helper fns are inlined (bounded, recursion is reported),
    `return` and fall-through are turned into continuations, `Some/None/Ok/Err` patterns over known constructors and
    phf map lookups are folded;
  * every branch condition must be one of the *atoms*
        self is variant V | s == "lit" | s.eq_ignore_ascii_case("lit") | s.len() <op> k | n <op> k
    (anything else: Unrecognised, the conservative answer);
  * the result is a binary decision DAG whose leaves are residual expressions (in the same JSON form the first-line
    recognisers consume).

The function denoted by the tree is constant on every cell of the partition induced by its atoms, so evaluating it on one
representative per cell (`run`) decides it for every input; `string_reps` / `int_reps` build such representative sets.
Nothing is executed: atoms are evaluated on representatives by their definition."""
from __future__ import annotations
from typing import Any, Callable, Dict, List, Optional, Tuple
import shapes as H
from shapes import Unrecognised

SOME = "core::option::Option::Some"
NONE = "core::option::Option::None"
OK = "core::result::Result::Ok"
ERR = "core::result::Result::Err"
EQ_ICASE = "core::str::<impl str>::eq_ignore_ascii_case"
STR_LEN = "core::str::<impl str>::len"
STR_IS_EMPTY = "core::str::<impl str>::is_empty"

UNIT = {"k": "tup", "elems": []}
BUDGET = 400000


class Leaf:
    __slots__ = ("value", "vpats", "diverge", "effects")

    def __init__(self, value: Any, vpats: tuple = (), diverge: Optional[str] = None, effects: tuple = ()):
        self.value = value
        self.vpats = vpats          # variant patterns matched on the way (their bindings occur free in value)
        self.diverge = diverge      # reason when the path does not return (panic / recursion / no arm)
        self.effects = effects      # calls into user code evaluated on the way whose value was bound or dropped

    def unused_effects(self) -> list:
        """Evaluated user calls that the returned value does not contain (a hoisted `let e = f(s);` on a path that does
        not return e, or a dropped `f(s);`): substitution of `let`s is only faithful when this is empty."""
        if not self.effects:
            return []
        txt = H.render(self.value) if self.value is not None else ""
        return [e for e in self.effects if H.render(e) not in txt]


class Br:
    __slots__ = ("atom", "t", "f")

    def __init__(self, atom: tuple, t: Any, f: Any):
        self.atom = atom
        self.t = t
        self.f = f


class Frame:
    __slots__ = ("env", "fid", "retk", "stack", "vpats", "effects", "brk", "cont")

    def __init__(self, env: dict, fid: int, retk, stack: tuple, vpats: tuple, effects: tuple = (), brk=None, cont=None):
        self.env = env
        self.fid = fid
        self.retk = retk
        self.stack = stack
        self.vpats = vpats
        self.effects = effects
        self.brk = brk          # continuations of the innermost enclosing loop
        self.cont = cont

    def bind(self, lid: int, v: Any) -> "Frame":
        e = dict(self.env)
        e[lid] = v
        return Frame(e, self.fid, self.retk, self.stack, self.vpats, self.effects, self.brk, self.cont)

    def with_vpat(self, vp) -> "Frame":
        return Frame(self.env, self.fid, self.retk, self.stack, self.vpats + (vp,), self.effects, self.brk, self.cont)

    def with_effect(self, e: Any) -> "Frame":
        return Frame(self.env, self.fid, self.retk, self.stack, self.vpats, self.effects + (e,), self.brk, self.cont)

    def in_loop(self, brk, cont) -> "Frame":
        return Frame(self.env, self.fid, self.retk, self.stack, self.vpats, self.effects, brk, cont)

    def carry(self, inner: "Frame") -> "Frame":
        """self's bindings -- with the values inner *assigned* to them -- and the path facts (matched patterns, effects) of
        inner; bindings introduced inside inner's scope are dropped."""
        env = self.env
        if inner.env is not self.env:
            changed = {k: inner.env[k] for k in self.env if k in inner.env and inner.env[k] is not self.env[k]}
            if changed:
                env = dict(self.env)
                env.update(changed)
        if env is self.env and inner.vpats == self.vpats and inner.effects == self.effects:
            return self
        return Frame(env, self.fid, self.retk, self.stack, inner.vpats, inner.effects, self.brk, self.cont)


CF_KINDS = {"if", "match", "ret", "let", "semi", "expr_stmt", "loop", "break", "continue", "assign", "assign_op", "let_expr"}


def peel(e: Any) -> Any:
    """Like H.strip but also through `&`, `*` (place/borrow structure is irrelevant for the atoms)."""
    e = H.strip(e)
    while isinstance(e, dict) and e.get("k") in ("ref", "deref"):
        e = H.strip(e["e"])
    return e


class Builder:
    def __init__(self, fn: dict, roles: Dict[int, str], fns: Optional[Dict[str, dict]] = None, discs: Optional[Dict[str, int]] = None,
                 items: Optional[Dict[str, dict]] = None):
        """fn: fact record of the function ({body:{params,tree}}); roles: parameter index -> 'self' | 'str' | 'int';
        fns: resolved def path -> fn record of helper functions that may be inlined (sibling generated impls)."""
        self.fn = fn
        self.roles = roles
        self.fns: Dict[str, dict] = dict(fns or {})
        self.adt = self.fns.pop("__adt__", None)
        discs = discs or self.fns.pop("__discs__", None)
        items = items or self.fns.pop("__items__", None)
        self.fns.pop("__discs__", None)
        self.fns.pop("__items__", None)
        self.items: Dict[str, dict] = dict(items or {})       # const / static items by name (nested ones are added by _scan_items)
        self.items_by_idx: Dict[int, dict] = {}
        for it_ in self.items.values():
            if isinstance(it_, dict) and it_.get("def_index") is not None:
                self.items_by_idx[it_["def_index"]] = it_
        self.discs = discs                      # variant -> discriminant (for `self as <int>`), when the caller knows them
        self.nodes = 0
        self.next_fid = 1
        self.inlined: List[str] = []
        self.order: Dict[int, int] = {}
        self.atom_pos: Dict[tuple, tuple] = {}
        self.phf_keys: List[str] = []
        self._scan_items(fn["body"]["tree"])

    # ---------------------------------------------------------------- items
    def _scan_items(self, tree: Any):
        for n in H.walk(tree):
            if id(n) not in self.order:
                self.order[id(n)] = len(self.order)
            if n.get("k") == "item":
                if n.get("item") == "fn" and n.get("def"):
                    self.fns.setdefault(n["def"], {"name": n.get("name"), "body": n["body"], "nested": True})
                elif n.get("item") in ("const", "static"):
                    self.items.setdefault(n["name"], n)
                    if n.get("def_index") is not None:
                        self.items_by_idx[n["def_index"]] = n       # several blocks may each declare an item of the same name

    # ---------------------------------------------------------------- helpers
    def br(self, atom: tuple, t: Any, f: Any, src: Any = None, sub: int = 0) -> Br:
        pos = (self.order.get(id(src), 10 ** 9), sub)
        if atom not in self.atom_pos or pos < self.atom_pos[atom]:
            self.atom_pos[atom] = pos
        return Br(atom, t, f)

    def atoms_in_source_order(self) -> List[tuple]:
        return [a for a, _p in sorted(self.atom_pos.items(), key=lambda kv: kv[1])]

    def _tick(self):
        self.nodes += 1
        if self.nodes > BUDGET:
            raise Unrecognised("generated body too complex for the decision-tree normaliser (%d nodes)" % self.nodes)

    def has_cf(self, e: Any) -> bool:
        if isinstance(e, list):
            return any(self.has_cf(x) for x in e)
        if not isinstance(e, dict):
            return False
        k = e.get("k")
        if k in CF_KINDS or k == "try":
            return True
        if k == "closure":
            return False
        if k == "item":
            return False
        if k == "block":
            for s in e["stmts"]:
                if s.get("k") != "item":
                    return True
            return self.has_cf(e.get("tail"))
        if k in ("call", "mcall") and self._inline_target(e) is not None:
            return True
        if k == "call":
            f_ = H.strip(e.get("f"))
            if isinstance(f_, dict) and f_.get("k") in ("closure", "local"):
                return True          # a call through a closure (literal or bound to a local): inlined
        if k in ("call", "mcall") and _combinator_of(e) is not None:
            return True
        if k == "mcall" and str(e.get("def", "")).startswith("phf::") and e.get("name") == "get":
            return True
        if k == "mcall" and e.get("def") == "core::str::<impl str>::strip_prefix":
            return True
        if k == "mcall" and str(e.get("def", "")).startswith(("core::slice::<impl [T]>::binary_search", "core::slice::<impl [T]>::get")):
            return True
        if k == "bin" and e.get("op") in ("&&", "||"):
            return True
        if k == "index":
            return True
        for key, v in e.items():
            if key in ("ty", "at", "pat", "fa"):
                continue
            if isinstance(v, (dict, list)) and self.has_cf(v):
                return True
        return False

    def _inline_target(self, e: dict) -> Optional[str]:
        if e.get("k") == "call":
            f = H.strip(e["f"])
            if isinstance(f, dict) and f.get("k") == "path":
                for d in (f.get("impl_def"), f.get("def")):
                    if d and d in self.fns:
                        return d
        elif e.get("k") == "mcall":
            for d in (e.get("impl_def"), e.get("def")):
                if d and d in self.fns:
                    return d
        return None

    def subst(self, e: Any, fr: Frame) -> Any:
        if isinstance(e, list):
            return [self.subst(x, fr) for x in e]
        if not isinstance(e, dict):
            return e
        if e.get("k") == "local" and "frame" not in e:
            if e.get("id") in fr.env:
                return fr.env[e["id"]]
            if fr.fid != 0:
                c = dict(e)
                c["frame"] = fr.fid
                c["param"] = None
                return c
            return e
        out = {}
        for key, v in e.items():
            if key in ("ty", "at") or not isinstance(v, (dict, list)):
                out[key] = v
            else:
                out[key] = self.subst(v, fr)
        return out

    def role(self, v: Any) -> Optional[str]:
        v = peel(v)
        # `s.as_bytes()`: the same input seen as bytes (comparisons with byte-string literals are comparisons of s)
        if isinstance(v, dict) and v.get("k") == "mcall" and v.get("def") == "core::str::<impl str>::as_bytes" and not v.get("args"):
            return self.role(v.get("recv"))
        if isinstance(v, dict) and v.get("k") == "local" and "frame" not in v and v.get("param") is not None:
            return self.roles.get(v["param"])
        return None

    @staticmethod
    def suffix_of(v: Any) -> Optional[str]:
        """p when v denotes `s` with its prefix p removed (bound by `Some(rest) = s.strip_prefix(p)`)."""
        v = peel(v)
        if isinstance(v, dict) and v.get("k") == "suffix":
            return v["prefix"]
        return None

    def item_of(self, path: dict) -> Optional[dict]:
        if path.get("def_index") is not None and path["def_index"] in self.items_by_idx:
            return self.items_by_idx[path["def_index"]]
        return self.items.get((path.get("written") or "").split("::")[-1])

    def array_of(self, v: Any) -> Optional[dict]:
        """The array literal a place expression denotes (directly, behind `&`, or through a const / static item)."""
        for _ in range(6):
            v = peel(v)
            if not isinstance(v, dict):
                return None
            if v.get("k") == "array":
                return v
            if v.get("k") == "path" and str(v.get("dk", "")).startswith(("Const", "Static")):
                it = self.item_of(v)
                if it is None or not it.get("body"):
                    return None
                v = it["body"]["tree"]
                continue
            if v.get("k") == "block" and all(s_.get("k") == "item" for s_ in v["stmts"]):
                v = v.get("tail")
                continue
            return None
        return None

    def is_disc(self, v: Any) -> bool:
        """`self as <int>` / `*self as <int>` (the discriminant of the receiver)."""
        v = peel(v)
        while isinstance(v, dict) and v.get("k") == "cast":
            inner = peel(v.get("e"))
            if self.role(inner) == "self":
                return True
            v = inner
        return False

    def int_value(self, v: Any) -> Optional[int]:
        n = self.int_const(v)
        if n is not None:
            return n
        v = peel(v)
        if isinstance(v, dict) and v.get("k") == "mcall" and v.get("name") == "len" and not v.get("args"):
            arr = self.array_of(v.get("recv"))
            if arr is not None:
                return len(arr["elems"])
        if isinstance(v, dict) and v.get("k") == "bin" and v.get("op") in ("+", "-", "*", "/", "%", "<<", ">>", "&", "|", "^"):
            a, b = self.int_value(v["l"]), self.int_value(v["r"])
            if a is not None and b is not None:
                return _arith(v["op"], a, b)
        return None

    def int_expr(self, v: Any) -> Optional[tuple]:
        """An arithmetic expression over the integer input: ('n',) | ('k', c) | (op, l, r) | ('cast', ty, e)."""
        v = peel(v)
        if not isinstance(v, dict):
            return None
        if self.role(v) == "int":
            return ("n",)
        c = self.int_const(v)
        if c is not None:
            return ("k", c)
        if v.get("k") == "cast":
            if self.role(peel(v.get("e"))) == "self":
                return ("cast", str(v.get("ty") or ""), ("n",))      # n = the discriminant of the receiver
            inner = self.int_expr(v.get("e"))
            if inner is None:
                return None
            return ("cast", str(v.get("ty") or ""), inner)
        if v.get("k") == "bin" and v.get("op") in ("+", "-", "*", "/", "%", "<<", ">>", "&", "|", "^") and not v.get("overloaded"):
            a, b = self.int_expr(v["l"]), self.int_expr(v["r"])
            if a is not None and b is not None and (a != ("k", a[-1]) or b != ("k", b[-1]) or True):
                return (v["op"], a, b)
        if v.get("k") == "mcall" and v.get("name") in ("wrapping_sub", "wrapping_add", "saturating_sub", "saturating_add") and len(v.get("args", [])) == 1:
            a, b = self.int_expr(v["recv"]), self.int_expr(v["args"][0])
            ty = (v.get("recv_ty") or "").lstrip("&")
            if a is not None and b is not None and ty:
                return (v["name"], ty, a, b)
        return None

    def first_of(self, v: Any) -> Optional[str]:
        """'byte' / 'char' when v is `s.bytes().next()`, `s.as_bytes().first()`, `s.as_bytes().get(0)` / `s.chars().next()`."""
        v = peel(v)
        if not (isinstance(v, dict) and v.get("k") == "mcall"):
            return None
        inner = peel(v.get("recv"))
        if not (isinstance(inner, dict) and inner.get("k") == "mcall" and self.role(inner.get("recv")) == "str" and not inner["args"]):
            return None
        d, di = str(v.get("def") or ""), str(inner.get("def") or "")
        if v["name"] == "next" and not v["args"] and d.endswith("Iterator::next"):
            if di == "core::str::<impl str>::bytes":
                return "byte"
            if di == "core::str::<impl str>::chars":
                return "char"
        if di == "core::str::<impl str>::as_bytes":
            if v["name"] == "first" and not v["args"]:
                return "byte"
            if v["name"] == "get" and len(v["args"]) == 1 and self.int_const(v["args"][0]) == 0:
                return "byte"
        return None

    @staticmethod
    def str_const(v: Any) -> Optional[str]:
        """A string literal, or a path to a local `const X: &str = "lit"` (the driver attaches its literal)."""
        v = peel(v)
        if isinstance(v, dict):
            if v.get("k") == "lit" and v.get("ty") == "str":
                return v.get("v")
            if v.get("k") == "lit" and v.get("ty") == "bytes" and v.get("v") is not None:
                return v.get("v")           # a byte string that is valid UTF-8
            if v.get("k") == "path" and str(v.get("dk", "")).startswith("Const") and v.get("lit_str") is not None:
                return v["lit_str"]
        return None

    def is_strlen(self, v: Any) -> bool:
        v = peel(v)
        return isinstance(v, dict) and v.get("k") == "mcall" and v.get("def") == STR_LEN and self.role(v["recv"]) == "str"

    def suffix_len(self, v: Any) -> Optional[int]:
        """byte length of the stripped prefix when v is `rest.len()` for a suffix `rest`"""
        v = peel(v)
        if isinstance(v, dict) and v.get("k") == "mcall" and v.get("def") == STR_LEN and self.suffix_of(v["recv"]) is not None:
            return len(self.suffix_of(v["recv"]).encode("utf-8"))
        return None

    def int_const(self, v: Any) -> Optional[int]:
        v = peel(v)
        if not isinstance(v, dict):
            return None
        if v.get("k") == "cast":
            return self.int_const(v.get("e"))
        n = H.lit_value(v, "int")
        if n is not None:
            return n
        if v.get("k") == "path" and str(v.get("dk", "")).startswith(("Const", "AssocConst")):
            if v.get("value") is not None:
                return _parse_int(v["value"])
            it = self.item_of(v)
            if it is not None and it.get("value") is not None:
                return _parse_int(it["value"])
        return None

    # ---------------------------------------------------------------- expressions
    def build(self, e: Any, fr: Frame, kont: Callable[[Any, Frame], Any]) -> Any:
        self._tick()
        while isinstance(e, dict) and ((e.get("k") == "block" and not e["stmts"] and e.get("tail") is not None) or
                                       (e.get("k") == "macro" and e.get("name") not in ("panic", "unreachable", "todo", "unimplemented") and not e.get("never"))):
            e = e["tail"] if e["k"] == "block" else e["e"]
        if e is None:
            return kont(UNIT, fr)
        if not self.has_cf(e):
            if H.diverges(e):
                return Leaf(self.subst(e, fr), fr.vpats, "diverges: " + H.brief(e, 60), fr.effects)
            return kont(self.subst(e, fr), fr)
        k = e.get("k")
        if k == "block":
            return self.build_stmts(e["stmts"], 0, e.get("tail"), fr, kont)
        if k == "ret":
            return self.build(e.get("e"), fr, fr.retk)
        if k == "if":
            els = e.get("else")
            return self.build_cond(e["cond"], fr,
                                   lambda f1: self.build(e["then"], f1, kont),
                                   lambda f1: self.build(els, f1, kont) if els is not None else kont(UNIT, f1))
        if k == "match":
            if e.get("src", "Normal") not in ("Normal", "Postfix"):
                raise Unrecognised("desugared match (%s) in generated body" % e.get("src"), e)
            return self.build(e["scrut"], fr, lambda v, f1: self.match_arms(e["arms"], v, f1, kont))
        if k == "try":
            # `place?` on a Result stored in a place: Ok -> payload, Err -> return Err(payload)
            def q(v, f1):
                vdef_, vargs_ = _ctor_value(H.strip(v))
                if vdef_ in (SOME, OK):
                    return kont(vargs_[0], f1)
                if vdef_ == NONE:
                    return f1.retk(H.strip(v), f1)
                if vdef_ == ERR:
                    return f1.retk(H.strip(v), f1)
                pk = place_key(v)
                if pk is None:
                    raise Unrecognised("`?` on something that is not a field of a parameter: " + H.brief(v, 80), e)
                ok_v = {"k": "proj", "place": list(pk), "ctor": "Ok", "e": peel(v)}
                err_v = {"k": "call", "f": {"k": "path", "def": ERR, "dk": "Ctor(Variant, Fn)", "written": "Err", "variant": "Err", "adt": "core::result::Result"},
                         "args": [{"k": "proj", "place": list(pk), "ctor": "Err", "e": peel(v)}]}
                return self.br(("is", pk, "Ok"), kont(ok_v, f1), f1.retk(err_v, f1), e)
            return self.build(e["e"], fr, q)
        if k == "bin" and e.get("op") in ("&&", "||"):
            return self.build_cond(e, fr, lambda f1: kont({"k": "lit", "ty": "bool", "v": True}, f1), lambda f1: kont({"k": "lit", "ty": "bool", "v": False}, f1))
        if k == "loop":
            return self.build_loop(e, fr, kont, 0)
        if k == "break":
            if fr.brk is None:
                raise Unrecognised("`break` outside a loop the normaliser entered", e)
            if e.get("e") is None:
                return fr.brk(UNIT, fr)
            return self.build(e["e"], fr, lambda v, f1: f1.brk(v, f1))
        if k == "continue":
            if fr.cont is None:
                raise Unrecognised("`continue` outside a loop the normaliser entered", e)
            return fr.cont(fr)
        if k in ("assign", "assign_op"):
            tgt = H.strip(e["l"])
            if not (isinstance(tgt, dict) and tgt.get("k") == "local" and tgt.get("id") in fr.env):
                raise Unrecognised("assignment to something other than a `let mut` local of the function", e)

            def store(v, f1):
                if k == "assign_op":
                    cur = self.int_value(f1.env[tgt["id"]])
                    rhs = self.int_value(v)
                    if cur is None or rhs is None:
                        raise Unrecognised("compound assignment on a value that is not a known integer", e)
                    nv = _arith(e["op"].rstrip("="), cur, rhs)
                    if nv is None:
                        raise Unrecognised("compound assignment `%s` not evaluated" % e["op"], e)
                    v = {"k": "lit", "ty": "int", "v": str(abs(nv)), "neg": nv < 0}
                return kont(UNIT, f1.bind(tgt["id"], v))
            return self.build(e["r"], fr, store)
        if k in ("semi", "expr_stmt", "let", "let_expr"):
            raise Unrecognised("statement form `%s` in expression position" % k, e)
        # generic: evaluate children left to right, rebuild the node
        slots = _slots(e)
        return self.build_children(e, slots, 0, [], fr, kont)

    MAX_ITER = 700

    def build_loop(self, e: dict, fr: Frame, kont, it: int) -> Any:
        """A loop whose control conditions become constants under substitution (a counter over a table of known size) is
        unrolled; anything else hits the iteration bound and stays unrecognised."""
        if it > self.MAX_ITER:
            raise Unrecognised("loop not unrolled within %d iterations" % self.MAX_ITER, e)
        outer_brk, outer_cont = fr.brk, fr.cont

        def after(v, f1):
            return kont(v, f1.in_loop(outer_brk, outer_cont))

        def again(f1):
            return self.build_loop(e, f1.in_loop(outer_brk, outer_cont), kont, it + 1)
        f_in = fr.in_loop(after, again)
        return self.build(e["body"], f_in, lambda _v, f1: again(fr.carry(f1)))

    def build_children(self, e: dict, slots: list, i: int, acc: list, fr: Frame, kont) -> Any:
        if i == len(slots):
            node = _rebuild(e, slots, acc)
            return self.after_children(node, fr, kont)
        child = _get(e, slots[i])
        return self.build(child, fr, lambda v, f1: self.build_children(e, slots, i + 1, acc + [v], f1, kont))

    def after_children(self, node: dict, fr: Frame, kont) -> Any:
        node = self.subst_shallow(node, fr)
        k = node.get("k")
        if k == "call":
            f_ = H.strip(node.get("f"))
            if isinstance(f_, dict) and f_.get("k") == "local":
                f_ = H.strip(self.subst(f_, fr))
            while isinstance(f_, dict) and f_.get("k") in ("ref", "deref"):
                f_ = H.strip(f_["e"])
            if isinstance(f_, dict) and f_.get("k") == "closure":
                return self.call_closure(f_, list(node["args"]), fr, kont, node)
        comb = _combinator_of(node)
        if comb is not None:
            folded = self.combinator(comb, node, fr, kont)
            if folded is not None:
                return folded
        # inline helper fns
        tgt = self._inline_target(node)
        if tgt is not None:
            return self.inline(tgt, node, fr, kont)
        if k == "bin" and node.get("op") in ("==", "!=", "<", "<=", ">", ">=") and not node.get("overloaded"):
            la, lb = self.int_value(node["l"]), self.int_value(node["r"])
            if la is not None and lb is not None:
                op = node["op"]
                val = (la != lb) if op == "!=" else _cmp(la, op, lb)
                return kont({"k": "lit", "ty": "bool", "v": bool(val)}, fr)
        if k == "field" and str(node.get("name", "")).isdigit():
            base = peel(node.get("e"))
            if isinstance(base, dict) and base.get("k") == "tup" and int(node["name"]) < len(base["elems"]):
                return kont(base["elems"][int(node["name"])], fr)
        if k == "index":
            arr = self.array_of(node["e"])
            if arr is not None:
                n = self.int_value(node["idx"])
                if n is not None:
                    if 0 <= n < len(arr["elems"]):
                        return self.build(arr["elems"][n], fr, kont) if self.has_cf(arr["elems"][n]) else kont(arr["elems"][n], fr)
                    return Leaf(node, fr.vpats, "index %d out of bounds of an array of %d" % (n, len(arr["elems"])), fr.effects)
                ie = self.int_expr(node["idx"])
                if ie is not None and "self" in self.roles.values() and self.discs is not None and _mentions_n(ie):
                    # ARR[f(self as <int>)]: one branch per variant, the index computed from rustc's discriminant
                    tree: Any = Leaf(node, fr.vpats, "no arm matches", fr.effects)
                    for vn, dv in reversed(list(self.discs.items())):
                        ix = eval_int_expr(ie, dv)
                        # no pattern names the variant here: a synthetic one (no bindings) stands for "self is this variant"
                        f1 = fr.with_vpat(H.VPat(self.adt, vn, "unit", [], True, {"k": "ppath", "path": {"k": "path", "variant": vn, "adt": self.adt}, "synthetic": True}))
                        if 0 <= ix < len(arr["elems"]):
                            t = kont(arr["elems"][ix], f1)
                        else:
                            t = Leaf(node, f1.vpats, "index %d (variant %s) out of bounds of an array of %d" % (ix, vn, len(arr["elems"])), fr.effects)
                        tree = self.br(("var", vn), t, tree, None)
                    return tree
                if ie is not None and "int" in self.roles.values():
                    # ARR[f(n)] for the integer input n: one branch per element, out of bounds otherwise
                    tree = Leaf(node, fr.vpats, "index out of bounds of an array of %d" % len(arr["elems"]), fr.effects)
                    for i in reversed(range(len(arr["elems"]))):
                        tree = self.br(("intx", ie, "==", i), kont(arr["elems"][i], fr), tree, None)
                    return tree
            return kont(node, fr)
        if k == "mcall":
            d = str(node.get("def", ""))
            recv = H.strip(node["recv"])
            # Option<&T>::cloned / copied over a known constructor
            if node["name"] in ("cloned", "copied") and d.startswith("core::option::Option"):
                co = H.call_of(recv)
                if co and co[0].get("def") == SOME and len(co[1]) == 1:
                    inner = H.strip(co[1][0])
                    if isinstance(inner, dict) and inner.get("k") == "ref":
                        inner = inner["e"]
                    return kont({"k": "call", "f": co[0], "args": [inner]}, fr)
                if isinstance(recv, dict) and recv.get("k") == "path" and recv.get("def") == NONE:
                    return kont(recv, fr)
            # ARR.get(i) on a constant array: Some(&elem) / None
            if node["name"] == "get" and d.startswith("core::slice::<impl [T]>::get") and len(node["args"]) == 1:
                arr = self.array_of(recv)
                if arr is not None:
                    some_p = {"k": "path", "def": SOME, "dk": "Ctor(Variant, Fn)", "written": "Some", "variant": "Some", "adt": "core::option::Option"}
                    none_p = {"k": "path", "def": NONE, "dk": "Ctor(Variant, Const)", "written": "None", "variant": "None", "adt": "core::option::Option"}
                    n_ = self.int_value(node["args"][0])
                    if n_ is not None:
                        if 0 <= n_ < len(arr["elems"]):
                            return kont({"k": "call", "f": some_p, "args": [{"k": "ref", "e": arr["elems"][n_]}]}, fr)
                        return kont(none_p, fr)
                    ie_ = self.int_expr(node["args"][0])
                    if ie_ is not None and "int" in self.roles.values():
                        tree = kont(none_p, fr)
                        for i_ in reversed(range(len(arr["elems"]))):
                            tree = self.br(("intx", ie_, "==", i_), kont({"k": "call", "f": some_p, "args": [{"k": "ref", "e": arr["elems"][i_]}]}, fr), tree, None)
                        return tree
            # TABLE.binary_search_by(|e| key(e).cmp(s)) / TABLE.binary_search(&s) over a constant table of string keys
            if node["name"] in ("binary_search_by", "binary_search") and d.startswith("core::slice::<impl [T]>::binary_search"):
                folded = self.binary_search(node, fr, kont)
                if folded is not None:
                    return folded
            # s.strip_prefix("lit") -> Option<suffix of s>
            if d == "core::str::<impl str>::strip_prefix" and self.role(recv) == "str" and len(node["args"]) == 1:
                a0 = peel(node["args"][0])
                if isinstance(a0, dict) and a0.get("k") == "lit" and a0.get("ty") in ("str", "char") and a0.get("v"):
                    return kont({"k": "optsuffix", "prefix": a0["v"]}, fr)
            # phf::Map::get(STATIC, s)
            if node["name"] == "get" and d.startswith("phf::") and len(node["args"]) == 1 and self.role(node["args"][0]) == "str":
                return self.phf_get(node, fr, kont)
        return kont(node, fr)

    def subst_shallow(self, node: dict, fr: Frame) -> dict:
        # children are already substituted values; paths / literals at this level need nothing
        return node

    def call_closure(self, clo: dict, args: list, fr: Frame, kont, node: Any) -> Any:
        """Inline a call of a closure value: parameters are bound to the arguments, captured locals were substituted when the
        closure value was built, `return` inside the closure returns from the closure."""
        params = clo.get("params", [])
        if len(params) != len(args):
            raise Unrecognised("closure called with %d arguments, takes %d" % (len(args), len(params)), node)
        if len(fr.stack) > 8:
            raise Unrecognised("closures nested too deeply", node)
        outer = fr

        def back(v, inner):
            return kont(v, outer.carry(inner))
        f1 = Frame(fr.env, fr.fid, back, fr.stack + ("<closure>",), fr.vpats, fr.effects)

        def bind_all(i, f2):
            if i == len(params):
                return self.build(clo["body"], f2, back)
            return self.match_pat(params[i], args[i], f2, lambda f3: bind_all(i + 1, f3), lambda _f: _refutable(node))
        return bind_all(0, f1)

    def combinator(self, comb: Tuple[str, str], node: dict, fr: Frame, kont) -> Optional[Any]:
        """Option / Result / bool combinators over a receiver whose constructor is known on this path."""
        fam, name = comb
        args = ([node["recv"]] + list(node["args"])) if node.get("k") == "mcall" else list(node["args"])
        if not args:
            return None
        recv = H.strip(args[0])
        rest = args[1:]
        some = lambda x: {"k": "call", "f": {"k": "path", "def": SOME, "dk": "Ctor(Variant, Fn)", "written": "Some", "variant": "Some", "adt": "core::option::Option"}, "args": [x]}
        none = {"k": "path", "def": NONE, "dk": "Ctor(Variant, Const)", "written": "None", "variant": "None", "adt": "core::option::Option"}
        okc = lambda x: {"k": "call", "f": {"k": "path", "def": OK, "dk": "Ctor(Variant, Fn)", "written": "Ok", "variant": "Ok", "adt": "core::result::Result"}, "args": [x]}
        errc = lambda x: {"k": "call", "f": {"k": "path", "def": ERR, "dk": "Ctor(Variant, Fn)", "written": "Err", "variant": "Err", "adt": "core::result::Result"}, "args": [x]}

        def apply(fv, xs, k2):
            fv0 = H.strip(fv)
            while isinstance(fv0, dict) and fv0.get("k") in ("ref", "deref"):
                fv0 = H.strip(fv0["e"])
            if isinstance(fv0, dict) and fv0.get("k") == "closure":
                return self.call_closure(fv0, xs, fr, k2, node)
            if isinstance(fv0, dict) and fv0.get("k") == "path":
                return self.build({"k": "call", "f": fv0, "args": xs}, fr, k2)
            raise Unrecognised("combinator argument is not a closure or a function path", node)
        # arguments of the non-lazy combinators are evaluated whether or not they are used: on the path that drops one, a call
        # into user code in it is an effect the returned value does not show
        unused = lambda arg, f1: f1.with_effect(arg) if effectful(arg) else f1
        if fam == "bool":
            if name == "then_some" and len(rest) == 1:
                return self.cond_value(recv, fr, lambda f1: kont(some(rest[0]), f1), lambda f1: kont(none, unused(rest[0], f1)), node)
            if name == "then" and len(rest) == 1:
                return self.cond_value(recv, fr, lambda f1: apply(rest[0], [], lambda v, f2: kont(some(v), f2)), lambda f1: kont(none, f1), node)
            return None
        vdef, vargs = _ctor_value(recv)
        if vdef is None:
            return None
        is_some, is_none, is_ok, is_err = vdef == SOME, vdef == NONE, vdef == OK, vdef == ERR
        x = vargs[0] if vargs else None
        if fam == "option" and (is_some or is_none):
            if name == "or_else" and len(rest) == 1:
                return kont(recv, fr) if is_some else apply(rest[0], [], kont)
            if name == "or" and len(rest) == 1:
                return kont(recv, unused(rest[0], fr)) if is_some else kont(rest[0], fr)
            if name == "and_then" and len(rest) == 1:
                return apply(rest[0], [x], kont) if is_some else kont(none, fr)
            if name == "map" and len(rest) == 1:
                return apply(rest[0], [x], lambda v, f2: kont(some(v), f2)) if is_some else kont(none, fr)
            if name == "map_or" and len(rest) == 2:
                return (apply(rest[1], [x], lambda v, f2: kont(v, unused(rest[0], f2))) if is_some else kont(rest[0], fr))
            if name == "map_or_else" and len(rest) == 2:
                return apply(rest[1], [x], kont) if is_some else apply(rest[0], [], kont)
            if name == "unwrap_or" and len(rest) == 1:
                return kont(x, unused(rest[0], fr)) if is_some else kont(rest[0], fr)
            if name == "unwrap_or_else" and len(rest) == 1:
                return kont(x, fr) if is_some else apply(rest[0], [], kont)
            if name == "ok_or" and len(rest) == 1:
                return kont(okc(x), unused(rest[0], fr)) if is_some else kont(errc(rest[0]), fr)
            if name == "ok_or_else" and len(rest) == 1:
                return kont(okc(x), fr) if is_some else apply(rest[0], [], lambda v, f2: kont(errc(v), f2))
            if name == "filter" and len(rest) == 1:
                if is_none:
                    return kont(none, fr)
                return apply(rest[0], [{"k": "ref", "e": x}], lambda v, f2: self.cond_value(v, f2, lambda f3: kont(recv, f3), lambda f3: kont(none, f3), node))
            if name in ("is_some", "is_none") and not rest:
                return kont({"k": "lit", "ty": "bool", "v": is_some == (name == "is_some")}, fr)
            if name in ("copied", "cloned") and not rest:
                if is_none:
                    return kont(none, fr)
                inner = H.strip(x)
                return kont(some(inner["e"] if isinstance(inner, dict) and inner.get("k") == "ref" else inner), fr)
        if fam == "result" and (is_ok or is_err):
            if name == "ok" and not rest:
                return kont(some(x) if is_ok else none, fr)
            if name == "err" and not rest:
                return kont(some(x) if is_err else none, fr)
            if name == "map" and len(rest) == 1:
                return apply(rest[0], [x], lambda v, f2: kont(okc(v), f2)) if is_ok else kont(recv, fr)
            if name == "map_err" and len(rest) == 1:
                return apply(rest[0], [x], lambda v, f2: kont(errc(v), f2)) if is_err else kont(recv, fr)
            if name == "and_then" and len(rest) == 1:
                return apply(rest[0], [x], kont) if is_ok else kont(recv, fr)
            if name == "or_else" and len(rest) == 1:
                return kont(recv, fr) if is_ok else apply(rest[0], [x], kont)
            if name == "unwrap_or" and len(rest) == 1:
                return kont(x, unused(rest[0], fr)) if is_ok else kont(rest[0], fr)
            if name in ("is_ok", "is_err") and not rest:
                return kont({"k": "lit", "ty": "bool", "v": is_ok == (name == "is_ok")}, fr)
        return None

    def binary_search(self, node: dict, fr: Frame, kont) -> Optional[Any]:
        """`Ok(i)` iff the input equals key i of a constant table that is strictly ascending in the comparator's order (plain
        `str` order: byte-wise), `Err(_)` otherwise. On a table that is not sorted the result of a binary search is
        unspecified: that is reported as such (Unrecognised with the offending pair), never guessed."""
        arr = self.array_of(node["recv"])
        if arr is None:
            return None
        key_of = None
        if node["name"] == "binary_search":
            if len(node["args"]) != 1 or self.role(node["args"][0]) != "str":
                return None
            key_of = lambda el: el
        else:
            if len(node["args"]) != 1:
                return None
            clo = H.strip(node["args"][0])
            if not (isinstance(clo, dict) and clo.get("k") == "closure" and len(clo.get("params", [])) == 1):
                return None
            prm = clo["params"][0]
            # |probe| .. , |&(k, _)| .. , |(k, _)| ..
            pid, tuple_idx = None, None
            q = prm
            while isinstance(q, dict) and q.get("k") in ("pref", "pderef"):
                q = q["pat"]
            if isinstance(q, dict) and q.get("k") == "bind":
                pid = q["id"]
            elif isinstance(q, dict) and q.get("k") == "ptuple":
                for i_, sp_ in enumerate(q.get("pats", [])):
                    b_ = H.binding(sp_)
                    if b_ is not None:
                        if pid is not None:
                            return None
                        pid, tuple_idx = b_["id"], i_
            if pid is None:
                return None
            co = H.call_of(clo["body"])
            if not (co and co[0].get("def") in ("core::cmp::Ord::cmp",) and len(co[1]) == 2):
                return None
            a_, b_ = co[1]
            if self.role(b_) != "str":
                return None          # cmp(target, element) would invert the search; anything else is not understood
            ka = peel(a_)
            if isinstance(ka, dict) and ka.get("k") == "local" and ka.get("id") == pid:
                key_of = (lambda el: el) if tuple_idx is None else (lambda el, i_=tuple_idx: (H.strip(el).get("elems") or [None] * (i_ + 1))[i_])
            elif isinstance(ka, dict) and ka.get("k") == "field" and tuple_idx is None:
                base = peel(ka.get("e"))
                if isinstance(base, dict) and base.get("k") == "local" and base.get("id") == pid and str(ka.get("name", "")).isdigit():
                    key_of = lambda el, i_=int(ka["name"]): (H.strip(el).get("elems") or [None] * (i_ + 1))[i_]
            if key_of is None:
                return None
        keys = []
        for el in arr["elems"]:
            kv = self.str_const(key_of(H.strip(el)) if key_of else None)
            if kv is None:
                return None
            keys.append(kv)
        for x, y in zip(keys, keys[1:]):
            if not x.encode("utf-8") < y.encode("utf-8"):
                raise Unrecognised("binary search over a table that is not strictly ascending in `str` order (%r is followed by %r): its result is unspecified" % (x, y), node)
        ok_path = {"k": "path", "def": OK, "dk": "Ctor(Variant, Fn)", "written": "Ok", "variant": "Ok", "adt": "core::result::Result"}
        err_path = {"k": "path", "def": ERR, "dk": "Ctor(Variant, Fn)", "written": "Err", "variant": "Err", "adt": "core::result::Result"}
        tree = kont({"k": "call", "f": err_path, "args": [{"k": "lit", "ty": "int", "v": "0", "opaque": "insertion point"}]}, fr)
        for i_ in reversed(range(len(keys))):
            tree = self.br(("seq", keys[i_]), kont({"k": "call", "f": ok_path, "args": [{"k": "lit", "ty": "int", "v": str(i_)}]}, fr), tree, node, i_)
        return tree

    def phf_get(self, node: dict, fr: Frame, kont) -> Any:
        r = peel(node["recv"])
        it = self.item_of(r) if isinstance(r, dict) and r.get("k") == "path" else None
        if it is None or it.get("item") != "static":
            raise Unrecognised("phf lookup on something that is not a static declared in the function", node)
        entries = phf_entries(it)
        some_path = {"k": "path", "def": SOME, "dk": "Ctor(Variant, Fn)", "written": "Some", "variant": "Some", "adt": "core::option::Option"}
        tree = kont({"k": "path", "def": NONE, "dk": "Ctor(Variant, Const)", "written": "None", "variant": "None", "adt": "core::option::Option"}, fr)
        n = len(entries)
        for key, _val in entries:
            if key not in self.phf_keys:
                self.phf_keys.append(key)
        for i, (key, val) in enumerate(reversed(entries)):
            t = kont({"k": "call", "f": some_path, "args": [{"k": "ref", "e": val}]}, fr)
            tree = self.br(("seq", key), t, tree, it, n - 1 - i)
        return tree

    def inline(self, tgt: str, node: dict, fr: Frame, kont) -> Any:
        if tgt in fr.stack:
            return Leaf(node, fr.vpats, "recursion: %s calls itself" % tgt.split("::")[-1], fr.effects)
        if len(fr.stack) > 6:
            raise Unrecognised("helper calls nested too deeply", node)
        fn = self.fns[tgt]
        params = fn["body"]["params"]
        args = ([node["recv"]] + list(node["args"])) if node.get("k") == "mcall" else list(node["args"])
        if len(args) != len(params) or any(p.get("name") is None for p in params):
            raise Unrecognised("cannot bind the arguments of helper %s" % tgt, node)
        env = {}
        for p, a in zip(params, args):
            env[p["id"]] = a
        fid = self.next_fid
        self.next_fid += 1
        self.inlined.append(tgt)
        outer = fr

        def back(v, inner):
            return kont(v, outer.carry(inner))
        nf = Frame(env, fid, back, fr.stack + (tgt,), fr.vpats, fr.effects)
        # nested items of the helper
        self._scan_items(fn["body"]["tree"])
        return self.build(fn["body"]["tree"], nf, back)

    # ---------------------------------------------------------------- statements
    def build_stmts(self, stmts: list, i: int, tail: Any, fr: Frame, kont) -> Any:
        while i < len(stmts) and stmts[i].get("k") == "item":
            i += 1
        if i == len(stmts):
            if tail is None:
                return kont(UNIT, fr)
            return self.build(tail, fr, kont)
        s = stmts[i]
        k = s.get("k")
        if k in ("semi", "expr_stmt"):
            def dropped(v, f1):
                f2 = self._scope(fr, f1)
                if effectful(v):
                    f2 = f2.with_effect(v)
                return self.build_stmts(stmts, i + 1, tail, f2, kont)
            return self.build(s["e"], fr, dropped)
        if k == "let":
            if s.get("else") is not None:
                init = s.get("init")
                return self.build(init, fr, lambda v, f1: self.match_pat(s["pat"], v, f1,
                                                                           lambda f2: self.build_stmts(stmts, i + 1, tail, f2, kont),
                                                                           lambda f2: self.build(s["else"], f2, kont)))
            if s.get("init") is None:
                raise Unrecognised("`let` without initialiser in generated body", s)
            return self.build(s["init"], fr, lambda v, f1: self.match_pat(s["pat"], v, f1.with_effect(v) if effectful(v) else f1,
                                                                           lambda f2: self.build_stmts(stmts, i + 1, tail, f2, kont),
                                                                           lambda f2: _refutable(s)))
        raise Unrecognised("statement `%s` in generated body" % k, s)

    def _scope(self, outer: Frame, inner: Frame) -> Frame:
        # bindings made inside an expression statement do not escape it; variant patterns matched on the way do
        return outer.carry(inner)

    # ---------------------------------------------------------------- conditions
    def build_cond(self, c: Any, fr: Frame, tk: Callable[[Frame], Any], fk: Callable[[Frame], Any]) -> Any:
        self._tick()
        c0 = H.strip(c)
        if isinstance(c0, dict):
            k = c0.get("k")
            if k == "let_expr":
                return self.build(c0["init"], fr, lambda v, f1: self.match_pat(c0["pat"], v, f1, tk, fk))
            if k == "bin" and c0.get("op") == "&&":
                fk_m = _memo1(fk)
                return self.build_cond(c0["l"], fr, lambda f1: self.build_cond(c0["r"], f1, tk, fk_m), fk_m)
            if k == "bin" and c0.get("op") == "||":
                tk_m = _memo1(tk)
                return self.build_cond(c0["l"], fr, tk_m, lambda f1: self.build_cond(c0["r"], f1, tk_m, fk))
            if k == "un" and c0.get("op") == "!":
                return self.build_cond(c0["e"], fr, fk, tk)
        return self.build(c, fr, lambda v, f1: self.cond_value(v, f1, tk, fk, c0))

    def cond_value(self, v: Any, fr: Frame, tk, fk, src: Any = None) -> Any:
        v0 = H.strip(v)
        if isinstance(v0, dict):
            if v0.get("k") == "lit" and v0.get("ty") == "bool":
                return tk(fr) if v0.get("v") in (True, "true") else fk(fr)
            if v0.get("k") == "un" and v0.get("op") == "!":
                return self.cond_value(v0["e"], fr, fk, tk, src)
            at = self.atom_of(v0)
            if at is not None and at[0][0] == "const":
                return tk(fr) if (at[0][1] == at[1]) else fk(fr)
            if at is not None:
                atom, pos = at
                if atom[0] == "range":
                    # lo <= len <= hi  (inclusive) / lo <= len < hi
                    _r, subject, lo, hi, incl = atom
                    if not pos:
                        tk, fk = fk, tk
                    inner = self.br((subject, "<=" if incl else "<", hi), tk(fr), fk(fr), src)
                    return self.br((subject, ">=", lo), inner, fk(fr), src)
                return self.br(atom, tk(fr), fk(fr), src) if pos else self.br(atom, fk(fr), tk(fr), src)
        raise Unrecognised("branch condition is not one of the decidable atoms: " + H.brief(v, 100), v)

    def atom_of(self, v: dict) -> Optional[Tuple[tuple, bool]]:
        k = v.get("k")
        if k == "bin" and v.get("op") in ("==", "!=", "<", "<=", ">", ">="):
            op = v["op"]
            l, r = v["l"], v["r"]
            for a, b, flip in ((l, r, False), (r, l, True)):
                o = _flip(op) if flip else op
                if self.role(a) == "str" and self.str_const(b) is not None and op in ("==", "!="):
                    return (("seq", self.str_const(b)), op == "==")
                if self.suffix_of(a) is not None and self.str_const(b) is not None and op in ("==", "!="):
                    return (("seq", self.suffix_of(a) + self.str_const(b)), op == "==")
                if self.is_strlen(a):
                    n = self.int_const(b)
                    if n is not None:
                        return _cmp_atom("slen", o, n)
                if self.suffix_len(a) is not None:
                    n = self.int_const(b)
                    if n is not None:
                        return _cmp_atom("slen", o, n + self.suffix_len(a))
                if self.role(a) == "int":
                    n = self.int_const(b)
                    if n is not None:
                        return _cmp_atom("int", o, n)
            la, lb = self.int_value(l), self.int_value(r)
            if la is not None and lb is not None:
                return (("const", _cmp(la, op if op != "!=" else "==", lb) != (op == "!=")), True)
            ea, eb = self.int_expr(l), self.int_expr(r)
            if ea is not None and eb is not None and (_mentions_n(ea) or _mentions_n(eb)):
                if op == "!=":
                    return (("intx", ("-", ea, eb), "==", 0), False)
                return (("intx", ("-", ea, eb), op, 0), True)
            return None
        if k == "mcall":
            d = v.get("def")
            if d in (EQ_ICASE, "core::slice::ascii::<impl [u8]>::eq_ignore_ascii_case") and len(v["args"]) == 1:
                a, b = v["recv"], v["args"][0]
                for x, y in ((a, b), (b, a)):
                    if self.role(x) == "str" and self.str_const(y) is not None:
                        return (("sci", self.str_const(y)), True)
                    if self.suffix_of(x) is not None and self.str_const(y) is not None:
                        return (("scisuf", self.suffix_of(x), self.str_const(y)), True)
                return None
            if d == STR_IS_EMPTY and self.role(v["recv"]) == "str":
                return (("slen", "==", 0), True)
            if d == "core::str::<impl str>::starts_with" and self.role(v["recv"]) == "str" and len(v["args"]) == 1:
                a0 = peel(v["args"][0])
                if isinstance(a0, dict) and a0.get("k") == "lit" and a0.get("ty") in ("str", "char") and a0.get("v") != "":
                    return (("spre", a0["v"]), True)
                return None
            if v.get("name") == "contains" and len(v["args"]) == 1 and str(d or "").startswith("core::ops::range::"):
                subj = peel(v["args"][0])
                subject = "slen" if self.is_strlen(subj) else ("int" if self.role(subj) == "int" else None)
                rng = _range_of(peel(v["recv"]), self)
                if subject and rng:
                    return (("range", subject, rng[0], rng[1], rng[2]), True)
            return None
        return None

    # ---------------------------------------------------------------- patterns
    def match_arms(self, arms: list, v: Any, fr: Frame, kont) -> Any:
        # built from the last arm upwards: `nxt` is the tree for "no earlier arm matched"
        nxt: Any = Leaf(None, fr.vpats, "no arm matches", fr.effects)
        for arm in reversed(arms):
            nxt = self._arm(arm, v, fr, kont, nxt)
        return nxt

    def _arm(self, arm: dict, v: Any, fr: Frame, kont, nxt: Any) -> Any:
        g = arm.get("guard")

        def ok(f1: Frame):
            if g is None:
                return self.build(arm["body"], f1, lambda x, f2: kont(x, self._scope(fr, f2)))
            return self.build_cond(g, f1, lambda f2: self.build(arm["body"], f2, lambda x, f3: kont(x, self._scope(fr, f3))), lambda _f: nxt)
        return self.match_pat(arm["pat"], v, fr, ok, lambda _f: nxt)

    def match_pat(self, p: Any, v: Any, fr: Frame, tk, fk) -> Any:
        self._tick()
        while isinstance(p, dict) and p.get("k") in ("pref", "pderef", "pbox"):
            p = p["pat"]
        if not isinstance(p, dict):
            raise Unrecognised("pattern not understood", p)
        k = p.get("k")
        if k == "wild":
            return tk(fr)
        if k == "bind":
            # a bound integer expression is folded once (chains like `let b = a + 1; let c = b + 1; ..` stay linear)
            if isinstance(v, dict) and v.get("k") in ("bin", "cast", "mcall", "un"):
                nv_ = self.int_value(v)
                if nv_ is not None:
                    v = {"k": "lit", "ty": "int", "v": str(abs(nv_)), "neg": nv_ < 0}
            f1 = fr.bind(p["id"], v)
            if p.get("sub"):
                return self.match_pat(p["sub"], v, f1, tk, fk)
            return tk(f1)
        if k == "por":
            tk_m = tk
            tree_f = None
            # alternatives tried in order; bindings inside alternatives are left residual (variant payloads)
            out = fk(fr)
            for alt in reversed(p["pats"]):
                out = self.match_pat(alt, v, fr, tk_m, (lambda o: (lambda _f: o))(out))
            return out
        role = self.role(v)
        pv = peel(v)
        if k in ("plit", "ppath") and role != "int" and not self.is_strlen(pv):
            n_pat = H.lit_value(p["lit"], "int") if k == "plit" else self.int_const(p["path"])
            if n_pat is not None:
                ie0 = self.int_expr(pv) if ("self" in self.roles.values() and self.discs is not None) else None
                if ie0 is not None and _mentions_n(ie0):
                    hits = [vn for vn, dv in self.discs.items() if eval_int_expr(ie0, dv) == n_pat]
                    out = fk(fr)
                    for vn in reversed(hits):
                        out = self.br(("var", vn), tk(fr), out, p)
                    return out
                nv = self.int_value(pv)
                if nv is not None:
                    return tk(fr) if nv == n_pat else fk(fr)
                ie = self.int_expr(pv)
                if ie is not None and _mentions_n(ie):
                    return self.br(("intx", ie, "==", n_pat), tk(fr), fk(fr), p)
        if k == "plit":
            lit = p["lit"]
            if role == "str" and lit.get("ty") == "str":
                return self.br(("seq", lit["v"]), tk(fr), fk(fr), p)
            if role == "str" and lit.get("ty") == "bytes":
                if lit.get("v") is None:
                    return fk(fr)           # bytes that are not UTF-8 equal no &str
                return self.br(("seq", lit["v"]), tk(fr), fk(fr), p)
            if self.suffix_of(pv) is not None and lit.get("ty") == "str":
                # on this path s starts with the prefix: rest == "lit"  <=>  s == prefix + "lit"
                return self.br(("seq", self.suffix_of(pv) + lit["v"]), tk(fr), fk(fr), p)
            n = H.lit_value(lit, "int")
            if n is not None and (role == "int" or self.is_strlen(pv)):
                return self.br(("int" if role == "int" else "slen", "==", n), tk(fr), fk(fr), p)
            if isinstance(pv, dict) and pv.get("k") == "lit":
                same = (pv.get("v") == lit.get("v") and pv.get("ty") == lit.get("ty") and bool(pv.get("neg")) == bool(lit.get("neg")))
                return tk(fr) if same else fk(fr)
            raise Unrecognised("literal pattern against a value that is not a recognised input: " + H.brief(v, 80), p)
        if k == "prange":
            raise Unrecognised("range pattern in generated code", p)
        vp = H.variant_pat(p)
        if vp is None and k == "pstruct" and isinstance(p.get("path"), dict) and not p["path"].get("variant"):
            # struct pattern `S { f: <pat>, .. }` against a place: field-wise
            if place_key(pv) is None:
                raise Unrecognised("struct pattern against a value that is not a place: " + H.brief(v, 80), p)
            pairs = [(f_[1], {"k": "field", "name": f_[0], "e": pv}) for f_ in p["fields"]]
            return self._match_all(pairs, fr, tk, fk)
        if vp is not None:
            # Option / Result over a known constructor value: decided statically
            pdef = p["path"].get("def") if isinstance(p.get("path"), dict) else None
            vdef, vargs = _ctor_value(pv)
            if vdef is not None and pdef is not None and _ctor_family(pdef) == _ctor_family(vdef) and _ctor_family(pdef) is not None:
                if _ctor_name(pdef) != _ctor_name(vdef):
                    return fk(fr)
                subs = vp.subs if vp.shape == "tuple" else []
                if len(subs) != len(vargs):
                    if not subs:
                        return tk(fr)
                    raise Unrecognised("constructor pattern arity", p)
                return self._match_all(list(zip(subs, vargs)), fr, tk, fk)
            if role == "self":
                f1 = fr.with_vpat(vp)
                return self.br(("var", vp.variant), tk(f1), fk(fr), p)
            if isinstance(pv, dict) and pv.get("k") == "optsuffix" and pdef in (SOME, NONE):
                pre = pv["prefix"]
                if pdef == NONE:
                    return self.br(("spre", pre), fk(fr), tk(fr), p)
                subs = vp.subs if vp.shape == "tuple" else []
                if len(subs) != 1:
                    raise Unrecognised("constructor pattern arity", p)
                return self.br(("spre", pre), self.match_pat(subs[0], {"k": "suffix", "prefix": pre}, fr, tk, fk), fk(fr), p)
            fo = self.first_of(pv)
            if fo is not None and pdef in (SOME, NONE):
                if pdef == NONE:
                    return self.br(("slen", "==", 0), tk(fr), fk(fr), p)
                subs = vp.subs if vp.shape == "tuple" else []
                if len(subs) != 1:
                    raise Unrecognised("constructor pattern arity", p)
                return self._first_pat(subs[0], fo, fr, tk, fk)
            pk = place_key(pv)
            if pk is not None and pdef is not None and _ctor_family(pdef) is not None:
                # Option / Result stored in a place (a field of a parameter): the atom is "place holds Some" / "place holds Ok"
                fam = _ctor_family(pdef)
                pos_name = "Some" if fam == "option" else "Ok"
                atom = ("is", pk, pos_name)
                name = _ctor_name(pdef)
                subs = vp.subs if vp.shape == "tuple" else []
                proj = {"k": "proj", "place": list(pk), "ctor": name, "e": pv}

                def matched(f1):
                    if not subs:
                        return tk(f1)
                    if len(subs) != 1:
                        raise Unrecognised("constructor pattern arity", p)
                    return self.match_pat(subs[0], proj, f1, tk, fk)
                if name == pos_name:
                    return self.br(atom, matched(fr), fk(fr), p)
                return self.br(atom, fk(fr), matched(fr), p)
            if role == "int" and k == "ppath":
                n = self.int_const(p["path"])
                if n is not None:
                    return self.br(("int", "==", n), tk(fr), fk(fr), p)
            raise Unrecognised("variant pattern against a value that is not the receiver: " + H.brief(v, 80), p)
        if k == "ppath" and role == "str" and self.str_const(p["path"]) is not None:
            return self.br(("seq", self.str_const(p["path"])), tk(fr), fk(fr), p)
        if k == "ppath":
            n = self.int_const(p["path"])
            if n is not None and (role == "int" or self.is_strlen(pv)):
                return self.br(("int" if role == "int" else "slen", "==", n), tk(fr), fk(fr), p)
        if k == "ptuple" and isinstance(pv, dict) and pv.get("k") == "tup" and len(pv["elems"]) == len(p.get("pats", [])):
            return self._match_all(list(zip(p["pats"], pv["elems"])), fr, tk, fk)
        raise Unrecognised("pattern not understood: " + H.render_pat(p), p)

    def _first_pat(self, p: Any, fo: str, fr: Frame, tk, fk) -> Any:
        """pattern inside Some(..) matched against the first byte / char of s (s non-empty on this branch is implied by the atom)."""
        while isinstance(p, dict) and p.get("k") in ("pref", "pderef"):
            p = p["pat"]
        k = p.get("k") if isinstance(p, dict) else None
        if k == "wild" or (k == "bind" and not p.get("sub")):
            # Some(_): s is not empty
            return self.br(("slen", "==", 0), fk(fr), tk(fr), p)
        if k == "por":
            out = fk(fr)
            tk_m = _memo1(tk)
            for alt in reversed(p["pats"]):
                out = self._first_pat(alt, fo, fr, tk_m, (lambda o: (lambda _f: o))(out))
            return out
        if k == "plit":
            lit = p["lit"]
            if lit.get("ty") == "byte" and fo == "byte":
                return self.br(("sb0", int(lit["v"])), tk(fr), fk(fr), p)
            if lit.get("ty") == "char" and fo == "char":
                return self.br(("spre", lit["v"]), tk(fr), fk(fr), p)
            if lit.get("ty") == "int" and fo == "byte":
                return self.br(("sb0", int(lit["v"])), tk(fr), fk(fr), p)
        raise Unrecognised("pattern on the first byte/char of the input is not a literal: " + H.render_pat(p), p)

    def _match_all(self, pairs: list, fr: Frame, tk, fk) -> Any:
        if not pairs:
            return tk(fr)
        (sp, sv), rest = pairs[0], pairs[1:]
        fk_m = _memo1(fk)
        return self.match_pat(sp, sv, fr, lambda f1: self._match_all(rest, f1, tk, fk_m), fk_m)

    # ---------------------------------------------------------------- entry
    def tree(self) -> Any:
        fr = Frame({}, 0, lambda v, f: Leaf(v, f.vpats, None, f.effects), (), ())
        return self.build(self.fn["body"]["tree"], fr, lambda v, f: Leaf(v, f.vpats, None, f.effects))


PURE_CRATES = ("core", "alloc", "std", "phf", "phf_shared", "strum")


def effectful(v: Any) -> bool:
    """Does evaluating v call into user code (a path call whose callee lives outside core/alloc/std/phf/strum)?
    Trait methods of core (Default::default, Into::into, Clone::clone ..) are taken as pure."""
    def nodes(e):
        # a closure value is not evaluated where it is written
        if isinstance(e, dict):
            if e.get("k") == "closure":
                return
            yield e
            for x in e.values():
                yield from nodes(x)
        elif isinstance(e, list):
            for x in e:
                yield from nodes(x)
    for n in nodes(v):
        if n.get("k") == "call":
            f = H.strip(n.get("f"))
            if isinstance(f, dict) and f.get("k") == "path" and f.get("crate") and f.get("crate") not in PURE_CRATES and not str(f.get("dk", "")).startswith("Ctor"):
                return True
        elif n.get("k") == "mcall":
            if n.get("crate") and n.get("crate") not in PURE_CRATES:
                return True
    return False


COMBINATORS = {
    "option": ("or_else", "or", "and_then", "map", "map_or", "map_or_else", "unwrap_or", "unwrap_or_else", "ok_or", "ok_or_else", "filter", "is_some", "is_none", "copied", "cloned"),
    "result": ("ok", "err", "map", "map_err", "and_then", "or_else", "unwrap_or", "is_ok", "is_err"),
    "bool": ("then_some", "then"),
}


def _combinator_of(e: dict) -> Optional[Tuple[str, str]]:
    d = None
    if e.get("k") == "mcall":
        d = str(e.get("def") or "")
    elif e.get("k") == "call":
        f_ = H.strip(e.get("f"))
        if isinstance(f_, dict) and f_.get("k") == "path":
            d = str(f_.get("def") or "")
    if not d:
        return None
    name = d.split("::")[-1]
    if d.startswith("core::option::Option") and name in COMBINATORS["option"]:
        return ("option", name)
    if d.startswith("core::result::Result") and name in COMBINATORS["result"]:
        return ("result", name)
    if d.startswith("core::bool::<impl bool>") and name in COMBINATORS["bool"]:
        return ("bool", name)
    return None


def place_key(v: Any) -> Optional[tuple]:
    """A parameter or a chain of field projections of one: ('p', i) / ('f', <place>, name)."""
    v = peel(v)
    if not isinstance(v, dict):
        return None
    if v.get("k") == "local" and "frame" not in v and v.get("param") is not None:
        return ("p", v["param"])
    if v.get("k") == "field":
        inner = place_key(v.get("e"))
        if inner is not None:
            return ("f", inner, v.get("name"))
    return None


def paths(tree: Any, limit: int = 20000):
    """Every root-to-leaf path as ([(atom, polarity)], leaf)."""
    out = []
    stack = [(tree, ())]
    while stack:
        n, lits = stack.pop()
        if isinstance(n, Br):
            known = [pol for a, pol in lits if a == n.atom]
            if known:
                stack.append((n.t if known[0] else n.f, lits))      # the atom is already decided on this path
                continue
            stack.append((n.f, lits + ((n.atom, False),)))
            stack.append((n.t, lits + ((n.atom, True),)))
        else:
            out.append((list(lits), n))
            if len(out) > limit:
                raise Unrecognised("too many paths in the decision tree")
    return out


def _refutable(s):
    raise Unrecognised("refutable `let` pattern without else", s)


def _memo1(fn):
    cache = {}

    def g(fr):
        key = (id(fr.env), fr.vpats)
        if key not in cache:
            cache[key] = (fn(fr), fr)      # keep fr alive so that the id is not reused
        return cache[key][0]
    return g


def _flip(op: str) -> str:
    return {"<": ">", ">": "<", "<=": ">=", ">=": "<=", "==": "==", "!=": "!="}[op]


def _cmp_atom(subject: str, op: str, n: int) -> Tuple[tuple, bool]:
    if op == "!=":
        return ((subject, "==", n), False)
    return ((subject, op, n), True)


def _arith(op: str, a: int, b: int) -> Optional[int]:
    try:
        if op == "+":
            return a + b
        if op == "-":
            return a - b
        if op == "*":
            return a * b
        if op == "/":
            return int(a / b) if b else None       # Rust: truncation towards zero
        if op == "%":
            return a - b * int(a / b) if b else None
        if op == "<<":
            return a << b
        if op == ">>":
            return a >> b
        if op == "&":
            return a & b
        if op == "|":
            return a | b
        if op == "^":
            return a ^ b
    except (ValueError, OverflowError):
        return None
    return None


def _mentions_n(e: tuple) -> bool:
    if e == ("n",):
        return True
    return any(isinstance(x, tuple) and _mentions_n(x) for x in e[1:])


def _wrap(ty: str, v: int) -> int:
    import re as _re
    m = _re.match(r"^([iu])(8|16|32|64|128|size)$", ty)
    if not m:
        return v
    bits = 64 if m.group(2) == "size" else int(m.group(2))
    v &= (1 << bits) - 1
    if m.group(1) == "i" and v >= 1 << (bits - 1):
        v -= 1 << bits
    return v


def _bounds(ty: str):
    import re as _re
    m = _re.match(r"^([iu])(8|16|32|64|128|size)$", ty)
    bits = 64 if m.group(2) == "size" else int(m.group(2))
    return (0, (1 << bits) - 1) if m.group(1) == "u" else (-(1 << (bits - 1)), (1 << (bits - 1)) - 1)


def eval_int_expr(e: tuple, n: int) -> int:
    """Value of an arithmetic expression over the integer input at n (wrapping casts and the explicit wrapping_* /
    saturating_* methods follow Rust; plain operators are evaluated over the integers, i.e. assuming no overflow panic)."""
    t = e[0]
    if t == "n":
        return n
    if t == "k":
        return e[1]
    if t == "cast":
        return _wrap(e[1], eval_int_expr(e[2], n))
    if t in ("wrapping_sub", "wrapping_add"):
        a, b = eval_int_expr(e[2], n), eval_int_expr(e[3], n)
        return _wrap(e[1], a - b if t == "wrapping_sub" else a + b)
    if t in ("saturating_sub", "saturating_add"):
        a, b = eval_int_expr(e[2], n), eval_int_expr(e[3], n)
        lo, hi = _bounds(e[1])
        return max(lo, min(hi, a - b if t == "saturating_sub" else a + b))
    a, b = eval_int_expr(e[1], n), eval_int_expr(e[2], n)
    r = _arith(t, a, b)
    if r is None:
        raise Unrecognised("arithmetic on the integer input is undefined at %d" % n)
    return r


def _parse_int(s: Any) -> Optional[int]:
    if isinstance(s, int):
        return s
    if not isinstance(s, str):
        return None
    import re
    m = re.match(r"^\s*(-?\d+)(_?[iu](8|16|32|64|128|size))?\s*$", s)
    return int(m.group(1)) if m else None


def _range_of(r: Any, b: "Builder") -> Optional[Tuple[int, int, bool]]:
    """`lo..=hi` / `lo..hi` literal ranges (as lowered: RangeInclusive::new(lo, hi) or Range { start, end })."""
    if not isinstance(r, dict):
        return None
    co = H.call_of(r)
    if co and str(co[0].get("def", "")).endswith("RangeInclusive::<Idx>::new") and len(co[1]) == 2:
        lo, hi = b.int_const(co[1][0]), b.int_const(co[1][1])
        if lo is not None and hi is not None:
            return (lo, hi, True)
    if r.get("k") == "struct":
        fs = {f[0]: f[1] for f in r["fields"]}
        nm = str((r.get("path") or {}).get("def", ""))
        if "start" in fs and "end" in fs:
            lo, hi = b.int_const(fs["start"]), b.int_const(fs["end"])
            if lo is not None and hi is not None:
                return (lo, hi, "Inclusive" in nm)
    return None


def _ctor_value(v: Any) -> Tuple[Optional[str], list]:
    if not isinstance(v, dict):
        return None, []
    if v.get("k") == "path" and v.get("def") in (NONE,):
        return v["def"], []
    co = H.call_of(v)
    if co and co[0].get("def") in (SOME, OK, ERR) and not co[0].get("method"):
        return co[0]["def"], co[1]
    return None, []


def _ctor_family(d: str) -> Optional[str]:
    if d in (SOME, NONE):
        return "option"
    if d in (OK, ERR):
        return "result"
    return None


def _ctor_name(d: str) -> str:
    return d.split("::")[-1]


def _slots(e: dict) -> list:
    k = e.get("k")
    if k == "call":
        return [("args", i) for i in range(len(e["args"]))]
    if k == "mcall":
        return [("recv", None)] + [("args", i) for i in range(len(e["args"]))]
    if k in ("ref", "deref", "un", "cast", "field", "macro", "paren", "addr_of"):
        return [("e", None)] if isinstance(e.get("e"), dict) else []
    if k == "struct":
        return [("fields", i) for i in range(len(e["fields"]))]
    if k in ("tup", "array"):
        return [("elems", i) for i in range(len(e["elems"]))]
    if k == "bin":
        return [("l", None), ("r", None)]
    if k == "index":
        return [("e", None), ("idx", None)]
    raise Unrecognised("control flow inside `%s` is not normalised" % k, e)


def _get(e: dict, slot) -> Any:
    key, i = slot
    if i is None:
        return e[key]
    if key == "fields":
        return e["fields"][i][1]
    return e[key][i]


def _rebuild(e: dict, slots: list, vals: list) -> dict:
    out = dict(e)
    for (key, i), v in zip(slots, vals):
        if i is None:
            out[key] = v
        elif key == "fields":
            fs = list(out["fields"])
            fs[i] = [fs[i][0], v] + list(fs[i][2:])
            out["fields"] = fs
        else:
            lst = list(out[key])
            lst[i] = v
            out[key] = lst
    return out


def phf_entries(static_item: dict) -> List[Tuple[str, Any]]:
    ty = static_item.get("ty_sem")
    if not (ty and str(ty.get("adt", "")).startswith("phf::")):
        raise Unrecognised("static consulted with get() is not a phf map", static_item)
    body = H.strip(static_item["body"]["tree"])
    ent = None
    if isinstance(body, dict) and body.get("k") == "struct":
        for f in body["fields"]:
            if f[0] == "entries":
                ent = H.strip(f[1])
    if ent is None:
        raise Unrecognised("phf map literal without entries", body)
    if ent.get("k") == "ref":
        ent = H.strip(ent["e"])
    if ent.get("k") != "array":
        raise Unrecognised("phf entries is not an array", ent)
    out = []
    for el in ent["elems"]:
        el = H.strip(el)
        if el.get("k") != "tup" or len(el["elems"]) != 2:
            raise Unrecognised("phf entry is not a pair", el)
        key = H.lit_value(el["elems"][0], "str")
        if key is None:
            raise Unrecognised("phf key is not a literal", el)
        out.append((key, el["elems"][1]))
    return out


# ------------------------------------------------------------------------------------------------
# evaluation on representatives
# ------------------------------------------------------------------------------------------------

def ascii_fold(s: str) -> str:
    return "".join(chr(ord(c) + 32) if "A" <= c <= "Z" else c for c in s)


def _cmp(a: int, op: str, b: int) -> bool:
    return {"==": a == b, "<": a < b, "<=": a <= b, ">": a > b, ">=": a >= b}[op]


def holds(atom: tuple, rep: dict) -> bool:
    k = atom[0]
    try:
        if k == "var":
            return rep["variant"] == atom[1]
        if k == "seq":
            return rep["s"] == atom[1]
        if k == "sci":
            return ascii_fold(rep["s"]) == ascii_fold(atom[1])
        if k == "slen":
            return _cmp(len(rep["s"].encode("utf-8")), atom[1], atom[2])
        if k == "int":
            return _cmp(rep["int"], atom[1], atom[2])
        if k == "is":
            return rep["is"][atom[1]] == atom[2]
        if k == "intx":
            return _cmp(eval_int_expr(atom[1], rep["int"]), atom[2], atom[3])
        if k == "sb0":
            b = rep["s"].encode("utf-8")
            return bool(b) and b[0] == atom[1]
        if k == "spre":
            return rep["s"].startswith(atom[1])
        if k == "scisuf":
            return rep["s"].startswith(atom[1]) and ascii_fold(rep["s"][len(atom[1]):]) == ascii_fold(atom[2])
    except KeyError:
        raise Unrecognised("the function branches on %s, which is not an input of the table being extracted" % (atom,))
    raise Unrecognised("unknown atom %r" % (atom,))


def run(tree: Any, rep: dict) -> Leaf:
    n = tree
    while isinstance(n, Br):
        n = n.t if holds(n.atom, rep) else n.f
    return n


def run_with(tree: Any, truth: Callable[[tuple], bool]) -> Leaf:
    n = tree
    while isinstance(n, Br):
        n = n.t if truth(n.atom) else n.f
    return n


def atoms(tree: Any) -> List[tuple]:
    seen = set()
    out = []
    have = set()
    stack = [tree]
    while stack:
        n = stack.pop()
        if id(n) in seen or not isinstance(n, Br):
            continue
        seen.add(id(n))
        if n.atom not in have:
            have.add(n.atom)
            out.append(n.atom)
        stack.append(n.f)
        stack.append(n.t)
    return out


def leaves(tree: Any) -> List[Leaf]:
    seen = set()
    out = []
    stack = [tree]
    while stack:
        n = stack.pop()
        if id(n) in seen:
            continue
        seen.add(id(n))
        if isinstance(n, Br):
            stack.append(n.f)
            stack.append(n.t)
        else:
            out.append(n)
    return out


def other_case(lit: str, avoid: set) -> Optional[str]:
    """A string equal to lit ignoring ASCII case and different from every string in `avoid` (None if there is none)."""
    idx = [i for i, c in enumerate(lit) if c.isascii() and c.isalpha()]
    if not idx:
        return None
    # flip subsets of letters in a fixed order until a fresh string appears (|avoid|+1 distinct candidates suffice)
    n = 0
    limit = min(1 << len(idx), len(avoid) + 2)
    for mask in range(1, limit + 1):
        cs = list(lit)
        for j, i in enumerate(idx):
            if j < 30 and (mask >> j) & 1:
                cs[i] = cs[i].swapcase()
        s = "".join(cs)
        if s not in avoid:
            return s
        n += 1
    return None


def string_reps(ats: List[tuple], extra_lits: List[str] = ()) -> List[Tuple[str, str]]:
    """One representative per cell of the partition that {s == l, s ~ci~ l, len(s) <op> k} induce on all strings.

    Cells: (a) s equals a literal l -- representative l; (b) s is ci-equal to the literals of one fold class and equal to
    none -- one representative per class (its length and every ci atom are fixed by the class); (c) s matches no literal
    in either sense -- the atoms then depend on len(s) only: one representative per length segment between the constants
    (k-1, k, k+1 for every constant and every literal length, 0, and max+1). Returns (kind, string)."""
    lits: List[str] = []
    ats = list(ats)
    for a in list(ats):
        if a[0] == "scisuf":
            # prefix compared exactly, rest ignoring case: the whole string is a member of the fold class of prefix+lit,
            # and the prefix is a case-sensitive prefix test
            ats.append(("sci", a[1] + a[2]))
            ats.append(("spre", a[1]))
    for a in ats:
        if a[0] in ("seq", "sci") and a[1] not in lits:
            lits.append(a[1])
    for l in extra_lits:
        if l not in lits:
            lits.append(l)
    litset = set(lits)
    out: List[Tuple[str, str]] = [("lit", l) for l in lits]
    classes: Dict[str, List[str]] = {}
    for l in lits:
        classes.setdefault(ascii_fold(l), []).append(l)
    for fold, ls in classes.items():
        oc = other_case(ls[0], litset)
        if oc is not None:
            out.append(("othercase", oc))
    ks = {0}
    for a in ats:
        if a[0] == "slen":
            ks.add(a[2])
    for l in lits:
        ks.add(len(l.encode("utf-8")))
    lens = set()
    for k in ks:
        for d in (-1, 0, 1):
            if k + d >= 0:
                lens.add(k + d)
    folds = set(classes)
    for n in sorted(lens):
        for filler in ("\x01", "~", "\x02", "#"):
            s = filler * n
            if ascii_fold(s) not in folds:
                out.append(("nomatch", s))
                break
        else:
            if n == 0:
                continue        # the only string of length 0 is "" itself, a literal of this table
            raise Unrecognised("cannot build a non-matching string of length %d" % n)
    # prefix / first-byte atoms (case sensitive): they split the fold classes by the case pattern of the leading characters
    # and the non-matching strings by their prefix
    prefixes: List[str] = []
    for a in ats:
        if a[0] == "spre" and a[1] not in prefixes:
            prefixes.append(a[1])
        if a[0] == "sb0":
            c = _char_with_first_byte(a[1])
            if c is not None and c not in prefixes:
                prefixes.append(c)
    if prefixes:
        plen = max(len(q) for q in prefixes)
        for fold, ls in classes.items():
            base = ls[0]
            head = [i for i, c in enumerate(base[:plen]) if c.isascii() and c.isalpha()]
            tail = [i for i, c in enumerate(base) if i >= plen and c.isascii() and c.isalpha()]
            if len(head) <= 6:
                # every case pattern of the letters a prefix test can see
                heads = []
                for mask in range(1 << len(head)):
                    cs = list(base)
                    for j, i in enumerate(head):
                        cs[i] = cs[i].upper() if (mask >> j) & 1 else cs[i].lower()
                    heads.append(cs)
            else:
                # long prefixes: the members that agree exactly with each tested prefix, and members that differ from it in
                # its first / last letter (the tests are exact prefix comparisons, so these are the cells they can separate)
                heads = [list(base), [c.swapcase() if c.isascii() else c for c in base]]
                for q in prefixes:
                    if ascii_fold(base[:len(q)]) == ascii_fold(q):
                        heads.append(list(q + base[len(q):]))
                        ql = [i for i, c in enumerate(q) if c.isascii() and c.isalpha()]
                        for i in (ql[:1] + ql[-1:]):
                            h2 = list(q + base[len(q):])
                            h2[i] = h2[i].swapcase()
                            heads.append(h2)
            for cs in heads:
                cands = ["".join(cs)]
                if tail:
                    for flip in (tail[:1], tail, tail[-1:]):
                        c2 = list(cs)
                        for i in flip:
                            c2[i] = c2[i].swapcase()
                        cands.append("".join(c2))
                    # as many rest patterns as needed to leave the literal set
                    for m2 in range(1, min(1 << len(tail), len(litset) + 2)):
                        c2 = list(cs)
                        for j, i in enumerate(tail[:30]):
                            if (m2 >> j) & 1:
                                c2[i] = c2[i].swapcase()
                        cands.append("".join(c2))
                for cand in cands:
                    if cand not in litset:
                        if ("othercase", cand) not in out:
                            out.append(("othercase", cand))
                        break
        firsts = set(q[0] for q in prefixes)
        fill = next((f_ for f_ in ("\x01", "~", "\x02", "#") if f_ not in firsts), None)
        if fill is None:
            raise Unrecognised("no filler character outside the tested prefixes")
        for q in prefixes:
            qb = len(q.encode("utf-8"))
            for n in sorted(lens | {qb, qb + 1}):
                if n >= qb:
                    sx = q + fill * (n - qb)
                    if ascii_fold(sx) not in folds and ("nomatch", sx) not in out:
                        out.append(("nomatch-prefix", sx))
    # multi-byte: a non-matching string whose char count differs from its byte length, for every length >= 2
    for n in sorted(lens):
        if n >= 2:
            s = "é" + "\x01" * (n - 2)
            if ascii_fold(s) not in folds:
                out.append(("nomatch-mb", s))
    return out


def _char_with_first_byte(b: int) -> Optional[str]:
    """A character whose UTF-8 encoding starts with byte b (None for continuation / invalid lead bytes)."""
    if b < 0x80:
        return chr(b)
    if 0xC2 <= b <= 0xDF:
        return bytes([b, 0x80]).decode("utf-8")
    if 0xE0 <= b <= 0xEF:
        for second in (0xA0, 0x80):
            try:
                return bytes([b, second, 0x80]).decode("utf-8")
            except UnicodeDecodeError:
                pass
    if 0xF0 <= b <= 0xF4:
        for second in (0x90, 0x80):
            try:
                return bytes([b, second, 0x80, 0x80]).decode("utf-8")
            except UnicodeDecodeError:
                pass
    return None


def _consts_of(e: tuple, acc: set):
    if e[0] == "k":
        acc.add(e[1])
    for x in e[1:]:
        if isinstance(x, tuple):
            _consts_of(x, acc)


def int_reps(ats: List[tuple], extra: List[int] = (), lo: Optional[int] = None, hi: Optional[int] = None) -> List[int]:
    """Representatives for a function of one integer. Comparison atoms `n <op> k` split the line at their constants (k-1, k, k+1
    suffice). Atoms over arithmetic of n (`n / 32 == k`, `n.wrapping_sub(a) > b`, `n as u8 == k`) are not monotone in general:
    then the whole domain is enumerated when it is small (8 / 16 bit types, or the window the caller gives), and otherwise a
    window around every constant and every product / sum of two constants plus the type's extremes -- stated as a bound."""
    ks = set(extra)
    arith = False
    for a in ats:
        if a[0] == "int":
            ks.add(a[2])
        if a[0] == "intx":
            arith = True
            acc: set = set()
            _consts_of(a[1], acc)
            ks.add(a[3])
            ks |= acc
            for x in list(acc):
                for y in list(acc):
                    if abs(x * y) < (1 << 70):
                        ks.add(x * y)
                        ks.add(x + y)
                        ks.add(x - y)
    if arith:
        if lo is not None and hi is not None and hi - lo <= 70000:
            return list(range(lo, hi + 1))
        out = set()
        for k in ks:
            for d in range(-70, 71):
                out.add(k + d)
        for d in range(0, 2100):
            out.add(d)
        if lo is not None:
            out |= {lo, lo + 1}
        if hi is not None:
            out |= {hi, hi - 1}
        return sorted(x for x in out if (lo is None or x >= lo) and (hi is None or x <= hi))
    out = set()
    for k in ks:
        for d in (-1, 0, 1):
            out.add(k + d)
    out.add(0)
    if lo is not None:
        out.add(lo)
    if hi is not None:
        out.add(hi)
    return sorted(x for x in out if (lo is None or x >= lo) and (hi is None or x <= hi))
