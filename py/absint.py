"""Engine A: forward abstract interpretation of the generated iterator's MIR in a relational numeric
domain (conjunctions of linear inequalities over symbolic integers; entailment and emptiness decided by
Fourier-Motzkin elimination over the rationals), with bounded disjunctive partitioning for saturating /
checked arithmetic.  No path is handed to an external solver; there are no loops, hence no widening.

An obligation is discharged only if (facts and not obligation) is rationally infeasible, which is sound
for the integer obligations used here."""
from __future__ import annotations
from fractions import Fraction
from typing import Any, Dict, List, Optional, Tuple
import itertools

USIZE_MAX = (1 << 64) - 1


class Lin:
    __slots__ = ("c", "k")

    def __init__(self, c: Optional[Dict[str, Fraction]] = None, k: Any = 0):
        self.c = {s: Fraction(v) for s, v in (c or {}).items() if v != 0}
        self.k = Fraction(k)

    @staticmethod
    def sym(s: str) -> "Lin":
        return Lin({s: 1}, 0)

    @staticmethod
    def const(k) -> "Lin":
        return Lin({}, k)

    def __add__(self, o: "Lin") -> "Lin":
        c = dict(self.c)
        for s, v in o.c.items():
            c[s] = c.get(s, 0) + v
        return Lin(c, self.k + o.k)

    def __sub__(self, o: "Lin") -> "Lin":
        return self + o.scale(-1)

    def scale(self, f) -> "Lin":
        return Lin({s: v * f for s, v in self.c.items()}, self.k * f)

    def is_const(self) -> bool:
        return not self.c

    def __eq__(self, o) -> bool:
        return isinstance(o, Lin) and self.c == o.c and self.k == o.k

    def __hash__(self):
        return hash((tuple(sorted(self.c.items())), self.k))

    def __repr__(self):
        parts = []
        for s, v in sorted(self.c.items()):
            if v == 1:
                parts.append("+" + s)
            elif v == -1:
                parts.append("-" + s)
            else:
                parts.append("%+d*%s" % (v, s) if v.denominator == 1 else "%+s*%s" % (v, s))
        if self.k != 0 or not parts:
            parts.append("%+d" % self.k if self.k.denominator == 1 else "%+s" % self.k)
        r = " ".join(parts)
        return r[1:] if r.startswith("+") else r


# a constraint is a Lin e meaning e >= 0

def feasible(cons: List[Lin]) -> bool:
    """Rational feasibility of a conjunction of `e >= 0` by Fourier-Motzkin elimination."""
    cs = []
    for e in cons:
        if e.is_const():
            if e.k < 0:
                return False
            continue
        cs.append(e)
    # dedupe
    cs = list(dict.fromkeys(cs))
    syms = sorted(set(s for e in cs for s in e.c))
    for s in syms:
        pos, neg, rest = [], [], []
        for e in cs:
            v = e.c.get(s, 0)
            if v > 0:
                pos.append(e)
            elif v < 0:
                neg.append(e)
            else:
                rest.append(e)
        new = rest
        for p in pos:
            for n in neg:
                # p: a*s + P >= 0 (a>0) ; n: -b*s + Q >= 0 (b>0)  =>  b*P + a*Q >= 0
                a = p.c[s]
                b = -n.c[s]
                e = p.scale(b) + n.scale(a)
                if e.is_const():
                    if e.k < 0:
                        return False
                    continue
                new.append(e)
        cs = list(dict.fromkeys(new))
        if len(cs) > 4000:
            # give up eliminating precisely: treated as feasible (sound for "not discharged")
            return True
    for e in cs:
        if e.is_const() and e.k < 0:
            return False
    return True


def entails(cons: List[Lin], goal: Lin) -> bool:
    """cons |= goal >= 0  (integers): cons and (goal <= -1) infeasible."""
    neg = goal.scale(-1) + Lin.const(-1)
    return not feasible(cons + [neg])


def entails_eq(cons: List[Lin], a: Lin, b: Lin) -> bool:
    d = a - b
    return entails(cons, d) and entails(cons, d.scale(-1))


class Unmodelled(Exception):
    pass


class State:
    def __init__(self, env=None, cons=None, notes=None):
        self.env: Dict[Any, Any] = dict(env or {})
        self.cons: List[Lin] = list(cons or [])
        self.notes: List[Any] = list(notes or [])

    def copy(self) -> "State":
        return State(self.env, self.cons, self.notes)

    def assume(self, e: Lin):
        self.cons.append(e)

    def feasible(self) -> bool:
        return feasible(self.cons)


_fresh = itertools.count()


def fresh(prefix: str = "u") -> str:
    return "%s%d" % (prefix, next(_fresh))


def int_range(ty: str) -> Optional[Tuple[int, int]]:
    r = {"usize": (0, USIZE_MAX), "u64": (0, USIZE_MAX), "u32": (0, (1 << 32) - 1), "u16": (0, 65535), "u8": (0, 255),
         "isize": (-(1 << 63), (1 << 63) - 1), "i64": (-(1 << 63), (1 << 63) - 1), "i32": (-(1 << 31), (1 << 31) - 1)}
    return r.get(ty)


class Obligation:
    def __init__(self, kind: str, where: str, text: str, ok: bool, detail: str = ""):
        self.kind = kind
        self.where = where
        self.text = text
        self.ok = ok
        self.detail = detail

    def __repr__(self):
        return "%s %s: %s [%s]" % ("OK " if self.ok else "FAIL", self.kind, self.text, self.where)


def _strip_generics(path: str) -> str:
    """`Iter::<T, U>::helper` -> `Iter::helper`"""
    out, depth = [], 0
    i = 0
    while i < len(path):
        c = path[i]
        if c == "<" and path[i - 2:i] == "::":
            depth += 1
            if depth == 1:
                out = out[:-2]
        elif c == ">" and depth:
            depth -= 1
        elif depth == 0:
            out.append(c)
        i += 1
    return "".join(out)


class Interp:
    """Abstract interpreter for one MIR body."""

    def __init__(self, mir: dict, fn_name: str, self_fields: List[str], table_fn: Optional[str], own_methods: Dict[str, str],
                 sym_const: Optional[Tuple[int, Lin]] = None, helpers: Optional[Dict[str, dict]] = None, depth: int = 0):
        self.mir = mir
        # private helper fns of the generated iterator (constructors and the like), by path: their MIR is interpreted in place
        self.helpers = helpers or {}
        self.depth = depth
        # symbolic length: the integer constant equal to the witness' N is read as the symbol N
        self.sym_const = sym_const
        self.fn = fn_name
        self.blocks = {b["id"]: b for b in mir["blocks"]}
        self.locals = {l["id"]: l for l in mir["locals"]}
        self.self_fields = self_fields
        self.table_fn = table_fn
        self.own_methods = own_methods
        self.obligations: List[Obligation] = []
        self.unmodelled: List[str] = []
        self.returns: List[State] = []
        self.max_states = 24

    # ---------------- values ----------------
    def fresh_int(self, st: State, ty: str, tag: str) -> Lin:
        s = fresh(tag)
        x = Lin.sym(s)
        r = int_range(ty)
        if r:
            st.assume(x - Lin.const(r[0]))
            st.assume(Lin.const(r[1]) - x)
        return x

    def read_place(self, st: State, p: dict):
        v = st.env.get(("L", p["local"]))
        if v is None:
            t = self.locals[p["local"]]["ty"]
            if int_range(t) and not p["proj"]:
                x = self.fresh_int(st, t, "l%d_" % p["local"])
                v = ("lin", x)
                st.env[("L", p["local"])] = v
            else:
                v = ("unknown", "local%d" % p["local"])
        for pr in p["proj"]:
            k = pr["p"]
            if k == "deref":
                if v[0] == "selfref":
                    v = ("SELF",)
                elif v[0] == "ref":
                    v = self.read_place(st, v[1])
                else:
                    v = ("unknown", "deref")
            elif k == "field":
                if v[0] == "SELF":
                    nm = pr.get("name")
                    v = st.env.get(("S", nm))
                    if v is None:
                        v = ("unknown", "self." + str(nm))
                elif v[0] == "tuple":
                    v = v[1][pr["i"]] if pr["i"] < len(v[1]) else ("unknown", "tuple-field")
                elif v[0] == "ovf":
                    if pr["i"] == 0:
                        v = ("lin", v[4])
                    else:
                        v = ("ovfflag", v[1], v[2], v[3])
                elif v[0] == "adt":
                    nm = pr.get("name")
                    fields = v[3]
                    if nm in fields:
                        v = fields[nm]
                    else:
                        vals = list(fields.values())
                        v = vals[pr["i"]] if pr["i"] < len(vals) else ("unknown", "adt-field")
                elif v[0] == "size_hint_of_self":
                    v = ("size_hint_field", pr["i"])
                else:
                    v = ("unknown", "field-of-" + v[0])
            elif k == "downcast":
                continue
            else:
                v = ("unknown", "proj")
        if v[0] == "unknown" and int_range(p.get("ty", "")):
            x = self.fresh_int(st, p["ty"], "h")
            return ("lin", x)
        return v

    def write_place(self, st: State, p: dict, v):
        if not p["proj"]:
            st.env[("L", p["local"])] = v
            return
        base = st.env.get(("L", p["local"]))
        pr = p["proj"]
        if base is not None and base[0] == "selfref" and len(pr) == 2 and pr[0]["p"] == "deref" and pr[1]["p"] == "field":
            st.env[("S", pr[1].get("name"))] = v
            st.notes.append(("store", pr[1].get("name")))
            return
        if len(pr) == 1 and pr[0]["p"] == "field" and base is not None and base[0] in ("tuple",):
            elems = list(base[1])
            if pr[0]["i"] < len(elems):
                elems[pr[0]["i"]] = v
                st.env[("L", p["local"])] = ("tuple", elems)
                return
        if len(pr) == 1 and pr[0]["p"] == "field":
            # building an aggregate field by field
            cur = st.env.get(("L", p["local"]))
            d = dict(cur[1]) if (cur is not None and cur[0] == "partial") else {}
            d[pr[0]["i"]] = v
            st.env[("L", p["local"])] = ("partial", d)
            return
        self.unmodelled.append("store to %s" % p)

    def operand(self, st: State, o: dict):
        if o["op"] in ("copy", "move"):
            return self.read_place(st, o["place"])
        c = o["c"]
        if "int" in c:
            if self.sym_const is not None and int(c["int"]) == self.sym_const[0] and c.get("const_ty") == "usize":
                return ("lin", self.sym_const[1])
            return ("lin", Lin.const(int(c["int"])))
        if "bool" in c:
            return ("bool", bool(c["bool"]))
        if "fn" in c:
            return ("fn", c["fn"])
        return ("unknown", "const")

    def as_lin(self, st: State, v, ty: str = "usize") -> Lin:
        if v[0] == "lin":
            return v[1]
        return self.fresh_int(st, ty, "x")

    # ---------------- transfer ----------------
    def assign(self, st: State, s: dict):
        p, rv = s["assign"], s["rv"]
        k = rv["rv"]
        if k == "use":
            self.write_place(st, p, self.operand(st, rv["a"]))
        elif k == "bin":
            a = self.operand(st, rv["a"])
            b = self.operand(st, rv["b"])
            op = rv["bop"]
            if op in ("AddWithOverflow", "SubWithOverflow", "MulWithOverflow"):
                la, lb = self.as_lin(st, a), self.as_lin(st, b)
                if op == "AddWithOverflow":
                    res = la + lb
                elif op == "SubWithOverflow":
                    res = la - lb
                else:
                    if la.is_const():
                        res = lb.scale(la.k)
                    elif lb.is_const():
                        res = la.scale(lb.k)
                    else:
                        res = self.fresh_int(st, "usize", "mul")
                self.write_place(st, p, ("ovf", op, la, lb, res))
            elif op in ("Add", "Sub", "AddUnchecked", "SubUnchecked"):
                la, lb = self.as_lin(st, a), self.as_lin(st, b)
                res = la + lb if op.startswith("Add") else la - lb
                # unchecked arithmetic (release-style MIR): the no-wrap condition is an obligation
                ty = p.get("ty", "usize")
                r = int_range(ty) or (0, USIZE_MAX)
                ok = entails(st.cons, Lin.const(r[1]) - res) and entails(st.cons, res - Lin.const(r[0]))
                self.obligations.append(Obligation("O1", self.fn, "%s does not wrap: %s" % (op, res), ok))
                st.assume(Lin.const(r[1]) - res)
                st.assume(res - Lin.const(r[0]))
                self.write_place(st, p, ("lin", res))
            elif op in ("Gt", "Ge", "Lt", "Le", "Eq", "Ne"):
                if a[0] == "lin" and b[0] == "lin":
                    self.write_place(st, p, ("cmp", op, a[1], b[1]))
                else:
                    self.write_place(st, p, ("unknown", "cmp"))
            else:
                self.write_place(st, p, ("unknown", "bin-" + op))
        elif k == "ref":
            pl = rv["place"]
            base = st.env.get(("L", pl["local"]))
            if base is not None and base[0] == "selfref" and len(pl["proj"]) == 1 and pl["proj"][0]["p"] == "deref":
                self.write_place(st, p, ("selfref",))
            else:
                self.write_place(st, p, ("ref", pl))
        elif k == "aggregate":
            ops = [self.operand(st, o) for o in rv["ops"]]
            if rv["agg"] == "tuple":
                self.write_place(st, p, ("tuple", ops))
            elif rv["agg"] == "adt":
                fields = {}
                for i, nm in enumerate(rv.get("fields", [])):
                    fields[nm] = ops[i] if i < len(ops) else ("unknown", "f")
                self.write_place(st, p, ("adt", rv["adt"], rv["variant"], fields))
            else:
                self.write_place(st, p, ("unknown", "aggregate"))
        elif k == "discriminant":
            v = self.read_place(st, rv["place"])
            if v[0] == "adt" and v[1] == "core::option::Option":
                self.write_place(st, p, ("lin", Lin.const(1 if v[2] == "Some" else 0)))
            else:
                self.write_place(st, p, ("unknown", "discr"))
        elif k == "cast":
            v = self.operand(st, rv["a"])
            if v[0] == "lin" and rv.get("ty") in ("usize", "u64") and rv.get("kind", "").startswith("IntToInt"):
                self.write_place(st, p, v)
            else:
                self.write_place(st, p, ("unknown", "cast"))
        else:
            self.write_place(st, p, ("unknown", k))

    def cmp_constraints(self, op: str, a: Lin, b: Lin, truth: bool) -> List[List[Lin]]:
        """Disjunction (list) of conjunctions (list of Lin >= 0) for `a op b == truth` over integers."""
        one = Lin.const(1)
        gt = [a - b - one]
        ge = [a - b]
        lt = [b - a - one]
        le = [b - a]
        table = {
            ("Gt", True): [gt], ("Gt", False): [le], ("Ge", True): [ge], ("Ge", False): [lt],
            ("Lt", True): [lt], ("Lt", False): [ge], ("Le", True): [le], ("Le", False): [gt],
            ("Eq", True): [ge + le], ("Eq", False): [gt, lt], ("Ne", True): [gt, lt], ("Ne", False): [ge + le],
        }
        return table[(op, truth)]

    def run(self, entry: State):
        work: Dict[int, List[State]] = {0: [entry]}
        order = self.topo()
        for bid in order:
            states = work.pop(bid, [])
            if not states:
                continue
            if len(states) > self.max_states:
                states = states[: self.max_states]
                self.unmodelled.append("state explosion in bb%d" % bid)
            b = self.blocks[bid]
            outs: List[Tuple[int, State]] = []
            for st in states:
                if not st.feasible():
                    continue
                for s in b["stmts"]:
                    if "assign" in s:
                        self.assign(st, s)
                    elif "other" in s:
                        self.unmodelled.append("statement %s" % s["other"][:60])
                for tgt, st2 in self.terminator(st, b["term"], bid):
                    outs.append((tgt, st2))
            for tgt, st2 in outs:
                if tgt is None:
                    self.returns.append(st2)
                else:
                    work.setdefault(tgt, []).append(st2)

    def topo(self) -> List[int]:
        succ = {}
        for bid, b in self.blocks.items():
            t = b["term"]
            s = []
            if t["t"] == "goto":
                s = [t["target"]]
            elif t["t"] == "switch":
                s = [x[1] for x in t["targets"]] + [t["otherwise"]]
            elif t["t"] in ("assert",):
                s = [t["target"]]
            elif t["t"] == "call":
                s = [t["target"]] if t.get("target") is not None else []
            succ[bid] = [x for x in s if not self.blocks[x]["cleanup"]]
        seen, out = set(), []

        def dfs(n, stack):
            if n in stack:
                raise Unmodelled("loop in MIR of %s" % self.fn)
            if n in seen:
                return
            seen.add(n)
            for m in succ.get(n, []):
                dfs(m, stack | {n})
            out.append(n)

        dfs(0, frozenset())
        return list(reversed(out))

    def terminator(self, st: State, t: dict, bid: int) -> List[Tuple[Optional[int], State]]:
        k = t["t"]
        if k == "goto":
            return [(t["target"], st)]
        if k == "return":
            return [(None, st)]
        if k == "unreachable":
            return []
        if k == "assert":
            v = self.operand(st, t["cond"])
            where = "%s bb%d" % (self.fn, bid)
            if v[0] == "ovfflag":
                _, op, la, lb = v
                if op == "AddWithOverflow":
                    goal = [Lin.const(USIZE_MAX) - (la + lb)]
                    text = "%s + %s <= usize::MAX" % (la, lb)
                elif op == "SubWithOverflow":
                    goal = [la - lb]
                    text = "%s - %s >= 0" % (la, lb)
                else:
                    goal = []
                    text = "multiplication"
                ok = bool(goal) and all(entails(st.cons, g) for g in goal)
                self.obligations.append(Obligation("O1", where, text, ok, "facts: %s" % st.cons[:12]))
                for g in goal:
                    st.assume(g)
                return [(t["target"], st)]
            self.obligations.append(Obligation("O1", where, "assert(%s) cannot be evaluated" % t.get("kind"), False))
            return [(t["target"], st)]
        if k == "switch":
            v = self.operand(st, t["discr"])
            outs = []
            targets = [(int(x[0]), x[1]) for x in t["targets"]]
            if v[0] == "cmp":
                _, op, a, b = v
                for val, tgt in targets:
                    for conj in self.cmp_constraints(op, a, b, val != 0):
                        s2 = st.copy()
                        for c in conj:
                            s2.assume(c)
                        if s2.feasible():
                            outs.append((tgt, s2))
                covered = set(val for val, _ in targets)
                for val in (0, 1):
                    if val not in covered:
                        for conj in self.cmp_constraints(op, a, b, val != 0):
                            s2 = st.copy()
                            for c in conj:
                                s2.assume(c)
                            if s2.feasible():
                                outs.append((t["otherwise"], s2))
                return outs
            if v[0] == "bool":
                val = 1 if v[1] else 0
                for x, tgt in targets:
                    if x == val:
                        return [(tgt, st)]
                return [(t["otherwise"], st)]
            if v[0] == "lin":
                e = v[1]
                for x, tgt in targets:
                    s2 = st.copy()
                    s2.assume(e - Lin.const(x))
                    s2.assume(Lin.const(x) - e)
                    if s2.feasible():
                        outs.append((tgt, s2))
                # otherwise: all listed values excluded (approximated: keep state)
                s3 = st.copy()
                if len(targets) == 1:
                    x = targets[0][0]
                    lo = s3.copy()
                    lo.assume(Lin.const(x - 1) - e)
                    hi = s3.copy()
                    hi.assume(e - Lin.const(x + 1))
                    for s4 in (lo, hi):
                        if s4.feasible():
                            outs.append((t["otherwise"], s4))
                else:
                    outs.append((t["otherwise"], s3))
                return outs
            # unknown discriminant: all successors
            self.unmodelled.append("switch on %s" % (v[0],))
            for _x, tgt in targets:
                outs.append((tgt, st.copy()))
            outs.append((t["otherwise"], st.copy()))
            return outs
        if k == "call":
            return self.call(st, t, bid)
        if k == "unwind":
            return []
        self.unmodelled.append("terminator " + k)
        return []

    def call(self, st: State, t: dict, bid: int) -> List[Tuple[Optional[int], State]]:
        f = t["func"]
        fn = (f.get("c") or {}).get("fn") if f.get("op") == "const" else None
        args = [self.operand(st, a) for a in t["args"]]
        dest = t["dest"]
        tgt = t.get("target")
        if tgt is None:
            return []
        if fn is None:
            self.unmodelled.append("indirect call")
            self.write_place(st, dest, ("unknown", "call"))
            return [(tgt, st)]
        short = fn
        if fn == self.table_fn:
            idx = args[-1]
            self.write_place(st, dest, ("get", self.as_lin(st, idx)))
            st.notes.append(("get", self.as_lin(st, idx)))
            return [(tgt, st)]
        if fn in self.own_methods.values() or fn in ("core::iter::traits::iterator::Iterator::nth", "core::iter::traits::iterator::Iterator::size_hint",
                                                       "core::iter::traits::exact_size::ExactSizeIterator::len", "core::iter::traits::iterator::Iterator::next"):
            name = fn.split("::")[-1]
            if args and args[0][0] == "selfref":
                if name == "nth":
                    self.write_place(st, dest, ("nth_of_self", args[1] if len(args) > 1 else None))
                    st.notes.append(("call_nth", args[1] if len(args) > 1 else None))
                    # the callee may store to self: forget the cursors (the caller's result is specified structurally)
                    for fld in self.self_fields:
                        st.env[("S", fld)] = ("lin", self.fresh_int(st, "usize", "after_nth_"))
                    return [(tgt, st)]
                if name == "size_hint":
                    self.write_place(st, dest, ("size_hint_of_self",))
                    st.notes.append(("call_size_hint",))
                    return [(tgt, st)]
                if name == "len":
                    self.write_place(st, dest, ("len_of_self",))
                    return [(tgt, st)]
        if ("saturating_add" in fn or "saturating_sub" in fn) and "core::num::" in fn and len(args) == 2:
            la, lb = self.as_lin(st, args[0]), self.as_lin(st, args[1])
            outs = []
            if "saturating_add" in fn:
                s1 = st.copy()
                s1.assume(Lin.const(USIZE_MAX) - (la + lb))
                self.write_place(s1, dest, ("lin", la + lb))
                s2 = st.copy()
                s2.assume(la + lb - Lin.const(USIZE_MAX + 1))
                self.write_place(s2, dest, ("lin", Lin.const(USIZE_MAX)))
            else:
                s1 = st.copy()
                s1.assume(la - lb)
                self.write_place(s1, dest, ("lin", la - lb))
                s2 = st.copy()
                s2.assume(lb - la - Lin.const(1))
                self.write_place(s2, dest, ("lin", Lin.const(0)))
            for s in (s1, s2):
                if s.feasible():
                    outs.append((tgt, s))
            return outs
        if ("core::cmp::Ord::min" in fn or "core::cmp::Ord::max" in fn or fn.endswith("core::cmp::min") or fn.endswith("core::cmp::max")) and len(args) == 2:
            la, lb = self.as_lin(st, args[0]), self.as_lin(st, args[1])
            is_min = fn.endswith("min")
            outs = []
            s1 = st.copy()
            s1.assume(lb - la)          # a <= b
            self.write_place(s1, dest, ("lin", la if is_min else lb))
            s2 = st.copy()
            s2.assume(la - lb - Lin.const(1))
            self.write_place(s2, dest, ("lin", lb if is_min else la))
            for s in (s1, s2):
                if s.feasible():
                    outs.append((tgt, s))
            return outs
        if "wrapping_add" in fn or "wrapping_sub" in fn:
            self.unmodelled.append("wrapping arithmetic (%s): result not tracked" % fn.split("::")[-1])
            self.write_place(st, dest, ("lin", self.fresh_int(st, "usize", "wrap")))
            return [(tgt, st)]
        if "checked_add" in fn or "checked_sub" in fn:
            la, lb = self.as_lin(st, args[0]), self.as_lin(st, args[1])
            add = "checked_add" in fn
            res = la + lb if add else la - lb
            s1 = st.copy()
            s1.assume((Lin.const(USIZE_MAX) - res) if add else res)
            self.write_place(s1, dest, ("adt", "core::option::Option", "Some", {"0": ("lin", res)}))
            s2 = st.copy()
            s2.assume((res - Lin.const(USIZE_MAX + 1)) if add else (res.scale(-1) - Lin.const(1)))
            self.write_place(s2, dest, ("adt", "core::option::Option", "None", {}))
            return [(tgt, s) for s in (s1, s2) if s.feasible()]
        if fn.endswith("Clone::clone") or "PhantomData" in fn or fn.startswith("core::marker::") or fn.endswith("::clone"):
            # cloning the marker / a usize: value preserved when the argument is a reference to a tracked integer
            v = args[0] if args else ("unknown", "clone")
            if v[0] == "ref":
                v = self.read_place(st, v[1])
            self.write_place(st, dest, v if v[0] == "lin" else ("unknown", "clone"))
            return [(tgt, st)]
        hk = _strip_generics(fn)
        if hk in self.helpers and self.depth < 3 and all(a[0] in ("lin", "bool", "adt", "unknown", "tuple", "selfref") for a in args):
            sub = Interp(self.helpers[hk], fn.split("::")[-1], self.self_fields, self.table_fn, self.own_methods, self.sym_const, self.helpers, self.depth + 1)
            entry = State({k_: v_ for k_, v_ in st.env.items() if k_[0] == "S"}, st.cons, st.notes)
            for i_, a in enumerate(args):
                entry.env[("L", i_ + 1)] = a
            sub.run(entry)
            self.obligations += sub.obligations
            self.unmodelled += sub.unmodelled
            outs = []
            for r in sub.returns:
                s2 = State(st.env, r.cons, r.notes)
                for k_, v_ in r.env.items():
                    if k_[0] == "S":
                        s2.env[k_] = v_
                self.write_place(s2, dest, r.env.get(("L", 0), ("unknown", "call")))
                if s2.feasible():
                    outs.append((tgt, s2))
            return outs
        # anything else: havoc the destination; a call that receives &mut self may change the cursors
        self.unmodelled.append("call to %s" % short)
        self.write_place(st, dest, ("unknown", "call"))
        if any(a[0] == "selfref" for a in args):
            for fld in self.self_fields:
                st.env[("S", fld)] = ("lin", self.fresh_int(st, "usize", "havoc_"))
        return [(tgt, st)]
