"""C05: the derived iterator obeys the double-ended / exact-size / fused contract.

Engine A (abstract interpretation of the generated MIR, py/absint.py) discharges per witness enum:
  O1  no overflow at any checked arithmetic, for all n in usize and all cursor states satisfying Inv
  O2  Inv := 0 <= idx <= N and 0 <= back_idx <= N at every return of a &mut self method
  O3  cursor specifications of nth / next_back / size_hint / len / next / clone
plus type-level witnesses (Send + Sync) and the trait surface."""
from __future__ import annotations
from typing import Any, Dict, List, Optional, Tuple
import absint as A
from absint import Lin, State, Interp, Obligation, entails, entails_eq
import shapes as H
from shapes import Unrecognised
from model import EnumInfo, fn_of
from common import Violation, ToolError
from props_strings import where, unrec, GEN_FN
from props_tables import IterTable, placement_class

REQUIRED_ITER_TRAITS = ["core::iter::traits::iterator::Iterator", "core::clone::Clone", "core::iter::traits::double_ended::DoubleEndedIterator",
                        "core::iter::traits::exact_size::ExactSizeIterator", "core::iter::traits::marker::FusedIterator"]


class IterModel:
    def __init__(self, info: EnumInfo, it: IterTable):
        self.info = info
        self.it = it
        self.N = len(it.entries)
        usz = [f["name"] for f in it.struct["fields"] if f["ty"]["s"] == "usize"]
        if len(usz) != 2:
            raise Unrecognised("iterator struct does not have exactly two usize cursors: %s" % [f["name"] for f in it.struct["fields"]])
        self.cursors = usz
        self.methods = it.methods
        for m in ("nth", "next_back", "size_hint"):
            if m not in self.methods or not self.methods[m].get("mir"):
                raise Unrecognised("no MIR for iterator method " + m)
        stored = self.stores(self.methods["nth"]["mir"])
        fr = [c for c in usz if c in stored]
        if len(fr) != 1:
            stored_b = self.stores(self.methods["next_back"]["mir"])
            bk = [c for c in usz if c in stored_b]
            if len(bk) == 1:
                fr = [c for c in usz if c != bk[0]]
        if len(fr) != 1:
            raise Unrecognised("cannot tell the front cursor from the back cursor (nth stores to %s)" % sorted(stored))
        self.front = fr[0]
        self.back = [c for c in usz if c != self.front][0]
        self.table_fn = it.get_fn.get("def")
        self.own = {name: f.get("def") for name, f in self.methods.items() if f.get("def")}

    @staticmethod
    def stores(mir: dict) -> set:
        out = set()
        for b in mir["blocks"]:
            for s in b["stmts"]:
                p = s.get("assign")
                if p and len(p["proj"]) == 2 and p["proj"][0]["p"] == "deref" and p["proj"][1]["p"] == "field":
                    out.add(p["proj"][1].get("name"))
        return out

    def entry(self, mir: dict, with_n: bool) -> Tuple[State, Lin, Lin, Optional[Lin]]:
        st = State()
        st.env[("L", 1)] = ("selfref",)
        i0, b0 = Lin.sym("idx"), Lin.sym("back")
        st.env[("S", self.front)] = ("lin", i0)
        st.env[("S", self.back)] = ("lin", b0)
        N = self.len_expr()
        if self.symbolic:
            st.assume(N)
            st.assume(Lin.const(MAX_VARIANTS) - N)
        for x in (i0, b0):
            st.assume(x)
            st.assume(N - x)
        n = None
        if with_n:
            n = Lin.sym("n")
            st.env[("L", 2)] = ("lin", n)
            st.assume(n)
            st.assume(Lin.const(A.USIZE_MAX) - n)
        return st, i0, b0, n

    def interp(self, name: str) -> Interp:
        sc = (self.N, Lin.sym("N")) if self.symbolic else None
        summarised = {"next", "nth", "size_hint", "next_back", "nth_back", "len", "clone", "fmt", "get", "iter"}
        helpers = {A._strip_generics(f["def"]): f["mir"] for nm, f in self.methods.items() if nm not in summarised and f.get("mir") and f.get("def")}
        return Interp(self.methods[name]["mir"], name, self.cursors, self.table_fn, self.own, sym_const=sc, helpers=helpers)

    symbolic = False


# rustc's VariantIdx is a u32 index with this maximum: no enum has more variants
MAX_VARIANTS = 0xFFFF_FF00


def _len_expr(self) -> Lin:
    return Lin.sym("N") if self.symbolic else Lin.const(self.N)


IterModel.len_expr = _len_expr


def cursor(st: State, field: str) -> Optional[Lin]:
    v = st.env.get(("S", field))
    return v[1] if v and v[0] == "lin" else None


def result(st: State):
    return st.env.get(("L", 0))


def is_none(v) -> bool:
    return bool(v) and v[0] == "adt" and v[1] == "core::option::Option" and v[2] == "None"


def analyse(model: IterModel) -> List[Obligation]:
    """All obligations O1-O3 for one witness enum."""
    obs: List[Obligation] = []
    N = model.len_expr()
    one = Lin.const(1)

    def add(kind, where_, text, ok, detail=""):
        obs.append(Obligation(kind, where_, text, ok, detail))

    def inv_at(st: State, where_: str):
        for c in (model.front, model.back):
            v = cursor(st, c)
            ok = v is not None and entails(st.cons, v) and entails(st.cons, N - v)
            add("O2", where_, "0 <= %s <= %s at return" % (c, "N" if model.symbolic else model.N), ok, "value %s" % (v,))

    def run(name: str, with_n: bool, extra: List[Lin], case: str):
        ip = model.interp(name)
        st, i0, b0, n = model.entry(ip.mir, with_n)
        for e in extra(i0, b0, n) if callable(extra) else extra:
            st.assume(e)
        if not st.feasible():
            return ip, [], i0, b0, n
        ip.run(st)
        for o in ip.obligations:
            o.where = "%s [%s] %s" % (name, case, o.where)
            obs.append(o)
        for u in ip.unmodelled:
            add("O3", "%s [%s]" % (name, case), "unmodelled construct: %s" % u, False)
        rets = [s for s in ip.returns if s.feasible()]
        return ip, rets, i0, b0, n

    # ---------------- nth ----------------
    # case A: enough items remain
    ip, rets, i0, b0, n = run("nth", True, lambda i0, b0, n: [N - (i0 + n + one + b0)], "items remain")
    if model.N > 0 or model.symbolic:
        add("O3", "nth [items remain]", "some return is reachable", bool(rets))
    for st in rets:
        r = result(st)
        w = "nth [items remain]"
        if r and r[0] == "get":
            add("O3", w, "yields get(idx + n)", entails_eq(st.cons, r[1], i0 + n), "argument %s" % (r[1],))
            f, b = cursor(st, model.front), cursor(st, model.back)
            add("O3", w, "idx' = idx + n + 1", f is not None and entails_eq(st.cons, f, i0 + n + one), "idx' = %s" % (f,))
            add("O3", w, "back_idx' = back_idx", b is not None and entails_eq(st.cons, b, b0), "back' = %s" % (b,))
        else:
            add("O3", w, "yields an item (the None edge is infeasible)", False, "result %s" % (r[:3] if r else r,))
        inv_at(st, w)
    # case B: past the end
    ip, rets, i0, b0, n = run("nth", True, lambda i0, b0, n: [(i0 + n + one + b0) - N - one], "past the end")
    add("O3", "nth [past the end]", "some return is reachable", bool(rets))
    for st in rets:
        r = result(st)
        w = "nth [past the end]"
        add("O3", w, "returns None (the get edge is infeasible)", is_none(r), "result %s" % (r[:3] if r else r,))
        f, b = cursor(st, model.front), cursor(st, model.back)
        add("O3", w, "stays exhausted: idx' + back_idx' >= N", f is not None and b is not None and entails(st.cons, f + b - N), "idx'=%s back'=%s" % (f, b))
        inv_at(st, w)
    # ---------------- next_back ----------------
    ip, rets, i0, b0, _ = run("next_back", False, lambda i0, b0, n: [N - (i0 + b0 + one)], "items remain")
    if model.N > 0 or model.symbolic:
        add("O3", "next_back [items remain]", "some return is reachable", bool(rets))
    for st in rets:
        r = result(st)
        w = "next_back [items remain]"
        if r and r[0] == "get":
            add("O3", w, "yields get(N - back_idx - 1)", entails_eq(st.cons, r[1], N - b0 - one), "argument %s" % (r[1],))
            f, b = cursor(st, model.front), cursor(st, model.back)
            add("O3", w, "back_idx' = back_idx + 1", b is not None and entails_eq(st.cons, b, b0 + one), "back' = %s" % (b,))
            add("O3", w, "idx' = idx", f is not None and entails_eq(st.cons, f, i0), "idx' = %s" % (f,))
        else:
            add("O3", w, "yields an item (the None edge is infeasible)", False, "result %s" % (r[:3] if r else r,))
        inv_at(st, w)
    ip, rets, i0, b0, _ = run("next_back", False, lambda i0, b0, n: [(i0 + b0 + one) - N - one], "exhausted")
    add("O3", "next_back [exhausted]", "some return is reachable", bool(rets))
    for st in rets:
        r = result(st)
        w = "next_back [exhausted]"
        add("O3", w, "returns None (the get edge is infeasible)", is_none(r), "result %s" % (r[:3] if r else r,))
        f, b = cursor(st, model.front), cursor(st, model.back)
        add("O3", w, "stays exhausted: idx' + back_idx' >= N", f is not None and b is not None and entails(st.cons, f + b - N), "idx'=%s back'=%s" % (f, b))
        inv_at(st, w)
    # ---------------- nth_back (only if the derive overrides it; otherwise core's default built on next_back applies) ----------------
    if "nth_back" in model.methods and model.methods["nth_back"].get("mir"):
        ip, rets, i0, b0, n = run("nth_back", True, lambda i0, b0, n: [N - (i0 + n + one + b0)], "items remain")
        add("O3", "nth_back [items remain]", "some return is reachable", bool(rets) or (model.N == 0 and not model.symbolic))
        for st in rets:
            r = result(st)
            w = "nth_back [items remain]"
            if r and r[0] == "get":
                add("O3", w, "yields get(N - back_idx - n - 1)", entails_eq(st.cons, r[1], N - b0 - n - one), "argument %s" % (r[1],))
                f, b = cursor(st, model.front), cursor(st, model.back)
                add("O3", w, "back_idx' = back_idx + n + 1", b is not None and entails_eq(st.cons, b, b0 + n + one), "back' = %s" % (b,))
                add("O3", w, "idx' = idx", f is not None and entails_eq(st.cons, f, i0), "idx' = %s" % (f,))
            else:
                add("O3", w, "yields an item (the None edge is infeasible)", False, "result %s" % (r[:3] if r else r,))
            inv_at(st, w)
        ip, rets, i0, b0, n = run("nth_back", True, lambda i0, b0, n: [(i0 + n + one + b0) - N - one], "past the end")
        add("O3", "nth_back [past the end]", "some return is reachable", bool(rets))
        for st in rets:
            r = result(st)
            w = "nth_back [past the end]"
            add("O3", w, "returns None (the get edge is infeasible)", is_none(r), "result %s" % (r[:3] if r else r,))
            f, b = cursor(st, model.front), cursor(st, model.back)
            add("O3", w, "exhausts the iterator: idx' + back_idx' >= N", f is not None and b is not None and entails(st.cons, f + b - N), "idx'=%s back'=%s" % (f, b))
            inv_at(st, w)
    # ---------------- size_hint ----------------
    for case, extra, want in (("remaining > 0", lambda i0, b0, n: [N - one - (i0 + b0)], lambda i0, b0: N - i0 - b0),
                              ("remaining = 0", lambda i0, b0, n: [(i0 + b0) - N], lambda i0, b0: Lin.const(0))):
        ip, rets, i0, b0, _ = run("size_hint", False, extra, case)
        w = "size_hint [%s]" % case
        if case == "remaining = 0" or model.N > 0 or model.symbolic:
            add("O3", w, "some return is reachable", bool(rets))
        for st in rets:
            r = result(st)
            ok_lo = ok_hi = False
            if r and r[0] == "tuple" and len(r[1]) == 2:
                lo, hi = r[1]
                if lo[0] == "lin":
                    ok_lo = entails_eq(st.cons, lo[1], want(i0, b0))
                if hi[0] == "adt" and hi[2] == "Some":
                    hv = list(hi[3].values())[0]
                    ok_hi = hv[0] == "lin" and entails_eq(st.cons, hv[1], want(i0, b0))
            add("O3", w, "lower bound == remaining", ok_lo, "result %s" % (r,))
            add("O3", w, "upper bound == Some(remaining)", ok_hi, "result %s" % (r,))
    # ---------------- len ----------------
    if "len" in model.methods and model.methods["len"].get("mir"):
        ok_all = True
        for case, extra, want in (("remaining > 0", lambda i0, b0, n: [N - one - (i0 + b0)], lambda i0, b0: N - i0 - b0),
                                  ("remaining = 0", lambda i0, b0, n: [(i0 + b0) - N], lambda i0, b0: Lin.const(0))):
            ip, rets, i0, b0, _ = run("len", False, extra, case)
            for st in rets:
                r = result(st)
                ok = bool(r) and (r == ("size_hint_field", 0) or (r[0] == "lin" and entails_eq(st.cons, r[1], want(i0, b0))))
                add("O3", "len [%s]" % case, "len() == size_hint().0 == remaining", ok, "result %s" % (r,))
    else:
        add("O3", "len", "len() is generated", False)
    # ---------------- next ----------------
    if "next" in model.methods and model.methods["next"].get("mir"):
        ip, rets, i0, b0, _ = run("next", False, [], "any")
        add("O3", "next", "some return is reachable", bool(rets))

        def delegates(st):
            r = result(st)
            return bool(r) and r[0] == "nth_of_self" and r[1] is not None and r[1][0] == "lin" and r[1][1] == Lin.const(0)
        if rets and all(delegates(st) for st in rets):
            for st in rets:
                add("O3", "next", "next() == nth(0)", True, "result %s" % (result(st),))
        else:
            # next() with a body of its own: the specification of nth with n = 0
            ip, rets, i0, b0, _ = run("next", False, lambda i0, b0, n: [N - (i0 + one + b0)], "items remain")
            if model.N > 0 or model.symbolic:
                add("O3", "next [items remain]", "some return is reachable", bool(rets))
            for st in rets:
                r = result(st)
                w = "next [items remain]"
                if delegates(st):
                    add("O3", w, "next() == nth(0)", True, "result %s" % (r,))
                    continue
                if r and r[0] == "get":
                    add("O3", w, "yields get(idx)", entails_eq(st.cons, r[1], i0), "argument %s" % (r[1],))
                    f, b = cursor(st, model.front), cursor(st, model.back)
                    add("O3", w, "idx' = idx + 1", f is not None and entails_eq(st.cons, f, i0 + one), "idx' = %s" % (f,))
                    add("O3", w, "back_idx' = back_idx", b is not None and entails_eq(st.cons, b, b0), "back' = %s" % (b,))
                else:
                    add("O3", w, "yields an item (the None edge is infeasible)", False, "result %s" % (r[:3] if r else r,))
                inv_at(st, w)
            ip, rets, i0, b0, _ = run("next", False, lambda i0, b0, n: [(i0 + one + b0) - N - one], "exhausted")
            add("O3", "next [exhausted]", "some return is reachable", bool(rets))
            for st in rets:
                r = result(st)
                w = "next [exhausted]"
                if delegates(st):
                    add("O3", w, "next() == nth(0)", True, "result %s" % (r,))
                    continue
                add("O3", w, "returns None (the get edge is infeasible)", is_none(r), "result %s" % (r[:3] if r else r,))
                f, b = cursor(st, model.front), cursor(st, model.back)
                add("O3", w, "stays exhausted: idx' + back_idx' >= N", f is not None and b is not None and entails(st.cons, f + b - N), "idx'=%s back'=%s" % (f, b))
                inv_at(st, w)
    else:
        add("O3", "next", "next() is generated", False)
    # ---------------- clone ----------------
    if "clone" in model.methods and model.methods["clone"].get("mir"):
        ip, rets, i0, b0, _ = run("clone", False, [], "any")
        for st in rets:
            r = result(st)
            ok = False
            if r and r[0] == "adt":
                f = r[3].get(model.front)
                b = r[3].get(model.back)
                ok = bool(f and b and f[0] == "lin" and b[0] == "lin" and entails_eq(st.cons, f[1], i0) and entails_eq(st.cons, b[1], b0))
            add("O3", "clone", "the clone has the same cursors", ok, "result %s" % (r,))
    else:
        add("O3", "clone", "clone() is generated", False)
    return obs


def normalise_mir(model: IterModel, name: str) -> str:
    """MIR of a method with the length constant and the enum / iterator type names abstracted."""
    import json
    import re
    mir = model.methods[name]["mir"]
    txt = json.dumps({"locals": [l.get("ty") for l in mir["locals"]], "blocks": mir["blocks"]}, sort_keys=True)
    ename = model.info.name
    iname = model.it.struct["name"]
    txt = txt.replace('"int": "%d"' % model.N, '"int": "N"')
    txt = re.sub(r"\b%s\b" % re.escape(iname), "ITER", txt)
    txt = re.sub(r"\b%s\b" % re.escape(ename), "ENUM", txt)
    txt = re.sub(r'"fn_crate": "[^"]*"', '"fn_crate": "_"', txt)
    txt = re.sub(r"(?:[A-Za-z0-9_]+::)+(ENUM|ITER)", r"\1", txt)      # any depth of enclosing modules
    # the module the enum lives in (paths of the derive's own constants and helper fns carry it)
    mod = "::".join(model.info.def_path.split("::")[:-1])
    if mod:
        txt = re.sub(r"\b%s::" % re.escape(mod), "", txt)
    return txt


def length_only_interpolated(gen) -> Optional[dict]:
    """In the generator function that emits the iterator template, the local holding the number of enabled variants
    (bound to a `Vec::len()` call and pushed into the template) is used only as a template interpolation."""
    import grules as G
    for p, f in gen.fns.items():
        qms = G.quote_macros(f)
        if not any(("ident", "nth") in G.quote_tokens(q) and ("ident", "next_back") in G.quote_tokens(q) for q in qms):
            continue
        tree = f["body"]["tree"]
        # locals bound to `<vec>.len()`
        lens = {}
        for n in H.walk(tree):
            if n.get("k") == "let" and n.get("init") is not None:
                b = H.binding(n["pat"])
                init = H.strip(n["init"])
                if b and isinstance(init, dict) and init.get("k") == "mcall" and init["name"] == "len" and str(init.get("def", "")).startswith("alloc::vec::Vec"):
                    lens[b["id"]] = b["name"]
        if not lens:
            return {"ok": False, "fn": gen.short(p), "bad": ["no `let n = <vec>.len()` found"]}
        bad = []
        n_interp = 0
        thresholds: List[int] = []

        def const_of(e):
            e = H.strip(e)
            v = H.lit_value(e, "int")
            if v is not None:
                return v
            if isinstance(e, dict) and e.get("k") == "path" and e.get("value") is not None:
                try:
                    return int(e["value"])
                except (TypeError, ValueError):
                    return None
            return None

        def visit(n, parent_call_def):
            nonlocal n_interp
            if isinstance(n, list):
                for x in n:
                    visit(x, parent_call_def)
                return
            if not isinstance(n, dict):
                return
            if n.get("k") == "bin" and n.get("op") in ("<", "<=", ">", ">=", "==", "!="):
                # the length compared with an integer constant: a threshold (the generated code has two shapes)
                l, r = H.strip(n["l"]), H.strip(n["r"])
                for a_, b_, flipped in ((l, r, False), (r, l, True)):
                    if isinstance(a_, dict) and a_.get("k") == "local" and a_.get("id") in lens and const_of(b_) is not None:
                        t_ = const_of(b_)
                        op_ = n["op"]
                        if flipped:
                            op_ = {"<": ">", ">": "<", "<=": ">=", ">=": "<="}.get(op_, op_)
                        # split points s: the generated code has one shape for N < s and one for N >= s
                        if op_ in ("<=", ">"):
                            thresholds.append(t_ + 1)
                        elif op_ in ("<", ">="):
                            thresholds.append(t_)
                        else:
                            thresholds.extend([t_, t_ + 1])
                        return
            if n.get("k") == "local" and n.get("id") in lens:
                if parent_call_def == "quote::to_tokens::ToTokens::to_tokens":
                    n_interp += 1
                else:
                    bad.append("%s used in %s" % (n.get("name"), parent_call_def or "a non-template expression"))
                return
            pc = parent_call_def
            if n.get("k") == "call":
                fp = H.strip(n["f"])
                pc = fp.get("def") if isinstance(fp, dict) else None
            elif n.get("k") == "mcall":
                pc = n.get("def")
            elif n.get("k") in ("ref", "deref", "block"):
                pc = parent_call_def
            elif n.get("k") in ("let", "macro", "semi", "expr_stmt", "loop"):
                pc = None
            else:
                pc = None if n.get("k") not in ("ref",) else parent_call_def
            for key, v in n.items():
                if key in ("ty", "at", "base_ty", "pat"):
                    continue
                visit(v, pc)

        visit(tree, None)
        return {"ok": not bad and not thresholds and n_interp > 0, "fn": gen.short(p), "bad": bad, "interpolations": n_interp,
                "thresholds": sorted(set(thresholds)), "only_thresholds": not bad and n_interp > 0 and bool(thresholds)}
    return None


def type_witnesses() -> Tuple[List[Violation], dict]:
    """Send + Sync of the iterator regardless of the enum's type parameters (positive must compile, negative twin must not)."""
    import witness
    pre = "#![allow(dead_code, unused_imports)]\nuse strum::*;\nuse std::rc::Rc;\nuse std::cell::Cell;\nfn assert_send_sync<X: Send + Sync>() {}\n"
    enums = {
        "one_param": ("#[derive(EnumIter, Debug)]\nenum Gen<T: Default> { A(T), B }\n", "GenIter<%s>", "Gen<%s>"),
        "two_params": ("#[derive(EnumIter, Debug)]\nenum Gen<T: Default, U: Default> { A(T), B(U), C }\n", "GenIter<u8, %s>", "Gen<u8, %s>"),
        "where_clause": ("#[derive(EnumIter, Debug)]\nenum Gen<T> where T: Default { A { t: T }, B }\n", "GenIter<%s>", "Gen<%s>"),
    }
    targets = {}
    for nm, (decl, it_ty, en_ty) in enums.items():
        for pn, payload in (("rc", "Rc<()>"), ("cell", "Cell<u8>"), ("ptr", "*const u8")):
            if pn == "ptr":
                continue
            targets["pos_%s_%s" % (nm, pn)] = pre + decl + "fn main() { assert_send_sync::<%s>(); }\n" % (it_ty % payload)
            targets["neg_%s_%s" % (nm, pn)] = pre + decl + "fn main() { assert_send_sync::<%s>(); }\n" % (en_ty % payload)
    targets["pos_plain"] = pre + "#[derive(EnumIter, Debug)]\nenum Plain { A, B }\nfn main() { assert_send_sync::<PlainIter>(); }\n"
    for pn, payload in (("rc", "Rc<u8>"), ("cell", "Cell<u8>"), ("refcell", "std::cell::RefCell<u8>")):
        decl = "#[derive(EnumIter, Debug)]\nenum Holder { A(%s), B { x: %s }, C }\n" % (payload, payload)
        targets["pos_payload_%s" % pn] = pre + decl + "fn main() { assert_send_sync::<HolderIter>(); }\n"
        targets["neg_payload_%s" % pn] = pre + decl + "fn main() { assert_send_sync::<Holder>(); }\n"
    targets["pos_const_generic"] = pre + "#[derive(EnumIter, Debug)]\nenum Cg<const N: usize> { A(std::marker::PhantomData<[Rc<u8>; N]>), B }\nfn main() { assert_send_sync::<CgIter<3>>(); }\n"
    diags, built = witness.check_targets("c05types", targets)
    out: List[Violation] = []
    n = 0
    for name in sorted(targets):
        errs = diags.get(name, [])
        n += 1
        if name.startswith("pos_") and errs:
            out.append(Violation("C05", "W: the iterator type is Send + Sync regardless of the enum's type parameters", "C05:send-sync:%s" % name.split("_", 1)[1].rsplit("_", 1)[-1],
                                 "assert_send_sync::<Iter<..>>() does not compile: %s" % errs[0].get("message", "")[:200], {"witness": name, "source": targets[name], "generator_fn": GEN_FN["EnumIter"]}))
        if name.startswith("neg_") and not any((e.get("code") or {}).get("code") == "E0277" for e in errs):
            raise ToolError("negative twin %s unexpectedly compiles (the Send+Sync witness is not sensitive)" % name)
    return out, {"type_witnesses": n}


def C05(infos: List[EnumInfo], ctx: dict):
    out: List[Violation] = []
    all_obs: List[Obligation] = []
    programs = 0
    samples = []
    skipped = []
    seen_shapes = set()
    analysed = []
    for info in infos:
        g = info.group("EnumIter")
        if not g or info.spec is None:
            continue
        es = info.spec
        try:
            it = IterTable(info, g)
            model = IterModel(info, it)
        except Unrecognised as e:
            out.append(unrec("C05", info, "EnumIter", e))
            continue
        # the MIR depends only on (N, generics shape): analyse one representative per shape and configuration
        shape = (model.N, bool(es.type_params), bool(es.const_params), (info.unit or {}).get("_config"), placement_class(es) != "none")
        if ctx["tier"] == "quick" and shape in seen_shapes and info.origin == "corpus":
            continue
        seen_shapes.add(shape)
        programs += 1
        analysed.append((info, model))
        try:
            obs = analyse(model)
        except (A.Unmodelled, Unrecognised) as e:
            out.append(Violation("C05", "engine A can interpret the generated MIR", "C05:uninterpretable:%s" % str(e)[:60], "cannot prove C05: %s" % e, where(info, "EnumIter")))
            continue
        all_obs += obs
        for o in obs:
            if not o.ok:
                method = o.where.split(" ")[0]
                cause = o.text
                cause = "overflow:" + ("add" if "+" in o.text else "sub" if "-" in o.text else "other") if o.kind == "O1" else o.text[:50]
                case = o.where.split("[")[1].split("]")[0] if "[" in o.where else ""
                out.append(Violation("C05", "%s: %s" % (o.kind, {"O1": "no arithmetic overflow for any n and any cursor state satisfying the invariant", "O2": "cursor invariant 0 <= idx, back_idx <= N preserved", "O3": "cursor specification"}[o.kind]),
                                     "C05:%s:%s:%s" % (o.kind, method, cause),
                                     "%s in %s: not entailed: %s (%s)" % (o.kind, o.where, o.text, o.detail[:200]),
                                     where(info, "EnumIter", {"N": model.N, "method": method, "case": case, "obligation": o.text, "detail": o.detail[:600]})))
        # every method the derive overrides in the Iterator-family impls must be one engine A has a specification for;
        # an unspecified override (fold, count, last, advance_by ..) would replace core's default built on next/nth/next_back
        SPECIFIED = {"next", "nth", "size_hint", "next_back", "nth_back", "len", "clone", "fmt", "get", "iter"}
        for imp in g.items:
            if imp["item"] != "impl" or not imp.get("trait"):
                continue
            tp = imp["trait"]["path"]
            if tp.startswith("core::iter::") and imp["self_ty"].get("adt") == it.iter_def:
                for a in imp.get("assoc", []):
                    if a["kind"] == "fn" and a["name"] not in SPECIFIED:
                        out.append(Violation("C05", "every iterator method the derive overrides has a cursor specification that engine A discharges",
                                             "C05:unspecified-override:%s" % a["name"], "%s overrides %s::%s, for which no specification is checked" % (it.struct["name"], tp.split("::")[-1], a["name"]),
                                             where(info, "EnumIter", {"method": a["name"]})))
        # premise of O4: get(0..N) is the list of enabled variants (dense, distinct, in order) -- shared with C04
        keys = [k for k, _ in it.entries]
        en = es.enabled()
        if sorted(keys) != list(range(len(en))) or any(c.variant != v.name for (k, c), v in zip(sorted(it.entries, key=lambda x: x[0]), en)):
            out.append(Violation("C05", "O4 premise: get(k), 0 <= k < N, enumerates exactly the enabled variants in order (the list the cursors range over)",
                                 "C05:table-not-the-enabled-list:%s" % placement_class(es), "index table keys %s -> %s, enabled variants %s" % (keys, [c.variant for _k, c in it.entries], [v.name for v in en]),
                                 where(info, "EnumIter", {"placement": placement_class(es)})))
        # trait surface of the iterator struct
        missing = [t for t in REQUIRED_ITER_TRAITS + ["core::fmt::Debug"] if t not in it.traits]
        if missing:
            out.append(Violation("C05", "X: the derive implements Iterator, DoubleEndedIterator, ExactSizeIterator, FusedIterator, Clone and Debug for the iterator",
                                 "C05:trait-missing:%s" % missing[0].split("::")[-1], "%s lacks %s" % (it.struct["name"], missing), where(info, "EnumIter")))
        if len(samples) < 4:
            samples.append({"enum": info.where(), "N": model.N, "front": model.front, "back": model.back,
                            "obligations": [repr(o) for o in obs[:6]]})
    # ---- for all N: symbolic length ------------------------------------------------------------
    # (1) the MIR of each method is uniform in N: identical across witnesses once the length constant and the type names are abstracted;
    # (2) the generator interpolates the length without ever branching on it;  (3) O1-O3 are discharged with N a symbol, 0 <= N <= VariantIdx::MAX.
    sym_obs: List[Obligation] = []
    uniform_groups = {}
    for (info, model) in analysed:
        key = (bool(info.spec.type_params), bool(info.spec.const_params), len(info.spec.type_params), (info.unit or {}).get("_config"))
        uniform_groups.setdefault(key, []).append((info, model))
    n_uniform = 0
    sym_programs = 0
    for key, members in sorted(uniform_groups.items(), key=lambda kv: str(kv[0])):
        big = [(i_, m_) for i_, m_ in members if m_.N >= 3]
        if len(big) < 2:
            continue
        ref_i, ref_m = big[0]
        ref_norm = {name: normalise_mir(ref_m, name) for name in ("nth", "next_back", "size_hint", "len", "next", "clone") if name in ref_m.methods}
        for i_, m_ in big[1:]:
            for name, rn in ref_norm.items():
                n_uniform += 1
                if name not in m_.methods or normalise_mir(m_, name) != rn:
                    out.append(Violation("C05", "the generated iterator code is uniform in the number of variants (only the length constant differs)", "C05:not-uniform-in-N:%s" % name,
                                         "MIR of %s differs between %s (N=%d) and %s (N=%d) beyond the length constant" % (name, ref_i.name, ref_m.N, i_.name, m_.N), where(i_, "EnumIter", {"method": name})))
        # symbolic run on up to two witnesses whose N cannot be confused with the constants 0 and 1
        for i_, m_ in big[:2]:
            m_.symbolic = True
            try:
                so = analyse(m_)
            except (A.Unmodelled, Unrecognised) as e:
                out.append(Violation("C05", "engine A can interpret the generated MIR", "C05:uninterpretable:%s" % str(e)[:60], "cannot prove C05 (symbolic N): %s" % e, where(i_, "EnumIter")))
                so = []
            finally:
                m_.symbolic = False
            sym_programs += 1
            sym_obs += so
            for o in so:
                if not o.ok:
                    method = o.where.split(" ")[0]
                    cause = "overflow:" + ("add" if "+" in o.text else "sub" if "-" in o.text else "other") if o.kind == "O1" else o.text[:50]
                    out.append(Violation("C05", "%s for every number of variants N (symbolic)" % o.kind, "C05:forallN:%s:%s:%s" % (o.kind, method, cause),
                                         "%s in %s with symbolic N: not entailed: %s (%s)" % (o.kind, o.where, o.text, o.detail[:200]), where(i_, "EnumIter", {"witness_N": m_.N, "method": method})))
    gen_uniform = None
    try:
        import grules as G
        gen = G.Gen(ctx["units"])
        gen_uniform = length_only_interpolated(gen)
        if gen_uniform and not gen_uniform["ok"]:
            covered = False
            if gen_uniform.get("only_thresholds"):
                # the generator compares the length with constants and otherwise only interpolates it: the generated code has one
                # shape per interval; the proofs above hold per witness, and every interval must contain a witness
                ns = sorted(set(m_.N for _i, m_ in analysed))
                ts = gen_uniform["thresholds"]
                cuts = sorted(set(ts))
                intervals = []
                lo_ = 0
                for c_ in cuts:
                    if c_ > lo_:
                        intervals.append((lo_, c_ - 1))
                        lo_ = c_
                intervals.append((lo_, None))
                empty = [iv for iv in intervals if not any(iv[0] <= n_ and (iv[1] is None or n_ <= iv[1]) for n_ in ns)]
                gen_uniform["intervals"] = intervals
                gen_uniform["intervals_without_witness"] = empty
                covered = not empty
            if not covered:
                out.append(Violation("C05", "the generator never branches on the number of variants (or every length interval it distinguishes contains an analysed witness)", "C05:generator-branches-on-length",
                                     "%s uses the length local outside a template interpolation: %s%s" % (gen_uniform["fn"], gen_uniform["bad"][:3],
                                                                                                      "; no witness with N in %s" % gen_uniform.get("intervals_without_witness") if gen_uniform.get("intervals_without_witness") else ""),
                                     {"generator_fn": gen_uniform["fn"], "thresholds": gen_uniform.get("thresholds")}))
    except ToolError:
        pass
    all_obs += sym_obs
    # trait bounds required by strum::IntoEnumIterator
    bounds_ok = None
    for u in ctx["units"]:
        if u.get("crate") == "strum":
            for tr in u.get("traits", []):
                if tr["name"] == "IntoEnumIterator":
                    for a in tr["assoc"]:
                        if a["kind"] == "type" and a["name"] == "Iterator":
                            have = [b.get("trait") for b in a["bounds"]]
                            miss = [t for t in REQUIRED_ITER_TRAITS if t not in have]
                            bounds_ok = not miss
                            if miss:
                                out.append(Violation("C05", "X: IntoEnumIterator::Iterator is bounded by Iterator + Clone + DoubleEndedIterator + ExactSizeIterator + FusedIterator",
                                                     "C05:trait-bound-missing:%s" % miss[0].split("::")[-1], "missing bounds %s" % miss, {"trait": "strum::IntoEnumIterator", "at": "strum/src/lib.rs"}))
    if bounds_ok is None:
        raise ToolError("trait strum::IntoEnumIterator not found in the facts")
    tv, tstats = type_witnesses()
    out += tv
    n_ob = len(all_obs)
    n_ok = sum(1 for o in all_obs if o.ok)
    if programs < 8 and not any(v.key.startswith("C05:unrecognised") for v in out):
        # (when the iterators cannot be modelled at all, the `unrecognised` violations above are the verdict)
        raise ToolError("only %d EnumIter witness enums analysed" % programs)
    cov = {"obligations": n_ob, "discharged": n_ok, "checker_cmd": "./check C05 --tier %s   (py/absint.py: Fourier-Motzkin entailment over the MIR facts of tools/factdrv)" % ctx["tier"],
           "trusted_base": ["rustc's MIR construction (overflow Assert terminators, -Zmir-opt-level=0)", "Fourier-Motzkin procedure in py/absint.py (rational relaxation, used only to discharge)",
                            "core's default Iterator / DoubleEndedIterator adapters (nth_back, skip, step_by, rev) built on next/nth/next_back",
                            "O4 (paper argument, DESIGN.md §5): O2+O3 are the transition relation of a double-ended cursor over [get(0)..get(N-1)]"],
           "programs": programs, "evaluations": n_ob, "distinct_nontrivial": len(set((o.kind, o.where.split(" bb")[0], o.text) for o in all_obs)),
           "samples": samples, "type_witnesses": tstats["type_witnesses"], "witness_shapes": sorted(set(str(s) for s in seen_shapes))[:40],
           "symbolic_N": {"witnesses": sym_programs, "obligations": len(sym_obs), "discharged": sum(1 for o in sym_obs if o.ok), "mir_uniformity_comparisons": n_uniform,
                          "generator_length_only_interpolated": gen_uniform, "range": "0 <= N <= 0xFFFFFF00 (rustc VariantIdx::MAX)"},
           "rule": "per witness enum and method: O1 at every Assert(Overflow), O2 at every return of nth/next_back, O3 cursor specifications, under Inv and 0 <= n <= usize::MAX, case-split on whether items remain; "
                   "then once more with the length constant read as a symbol N (all N), justified by MIR uniformity across witnesses and by the generator only interpolating the length",
           "assumptions": ["verdicts are per concrete N (the literal is concrete in MIR), for the witness enums analysed", "usize is 64 bit on the analysis host; the argument does not depend on the width"]}
    return out, cov
