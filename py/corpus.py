"""Witness corpus: a generated cargo workspace of enum definitions covering the decision inputs of
strum_macros' generator functions (DESIGN.md §3.3), compiled against REPO's working tree with the
fact driver.  Deterministic for a given (tier, seed)."""
from __future__ import annotations
import hashlib
import json
import os
import random
import re
import shutil
from dataclasses import dataclass, field
from typing import Dict, List, Optional, Tuple

import common
import spec as S

GEN_VERSION = "35"

STRUM_DERIVES = ["EnumString", "Display", "AsRefStr", "IntoStaticStr", "VariantNames", "EnumIter", "EnumCount", "FromRepr",
                 "VariantArray", "EnumDiscriminants", "EnumIs", "EnumTryAs", "EnumMessage", "EnumProperty", "EnumTable",
                 "AsStaticStr", "ToString", "EnumVariantNames"]


def rstr(s: str) -> str:
    out = '"'
    for c in s:
        if c == '"':
            out += '\\"'
        elif c == "\\":
            out += "\\\\"
        elif c == "\n":
            out += "\\n"
        elif ord(c) < 0x20:
            out += "\\u{%x}" % ord(c)
        else:
            out += c
    return out + '"'


@dataclass
class V:
    name: str
    kind: str = "unit"                      # unit | tuple | named
    fields: List[Tuple[Optional[str], str]] = field(default_factory=list)
    attrs: List[List[str]] = field(default_factory=list)     # each inner list is one #[strum(..)] attribute
    docs: List[str] = field(default_factory=list)
    disc: Optional[str] = None
    field_attrs: Dict[int, List[str]] = field(default_factory=dict)
    raw_attrs: List[str] = field(default_factory=list)       # e.g. #[strum_discriminants(..)]
    docs_after: List[str] = field(default_factory=list)      # doc lines written after the attributes

    def render(self) -> str:
        lines = []
        for r in getattr(self, "pre_lines", []) or []:
            lines.append("    " + r)
        for d in self.docs:
            lines.append("    ///" + d)
        for r in getattr(self, "mid_lines", []) or []:
            lines.append("    " + r)
        if getattr(self, "attrs_after_raw", False):
            for r in self.raw_attrs:
                lines.append("    " + r)
        for a in self.attrs:
            if a:
                lines.append("    #[strum(%s)]" % ", ".join(a))
        if not getattr(self, "attrs_after_raw", False):
            for r in self.raw_attrs:
                lines.append("    " + r)
        for d in self.docs_after:
            lines.append("    ///" + d)
        body = self.name
        if self.kind == "tuple":
            fs = []
            for i, (_n, t) in enumerate(self.fields):
                fa = "".join("#[strum(%s)] " % ", ".join(self.field_attrs[i]) for _ in [0] if i in self.field_attrs)
                fs.append(fa + t)
            body += "(" + ", ".join(fs) + ")"
        elif self.kind == "named":
            fs = []
            for i, (n, t) in enumerate(self.fields):
                fa = "".join("#[strum(%s)] " % ", ".join(self.field_attrs[i]) for _ in [0] if i in self.field_attrs)
                fs.append("%s%s: %s" % (fa, n, t))
            body += " { " + ", ".join(fs) + " }"
        if self.disc is not None:
            body += " = " + self.disc
        lines.append("    " + body + ",")
        return "\n".join(lines)


@dataclass
class E:
    name: str
    family: str
    derives: List[str]
    variants: List[V]
    std_derives: List[str] = field(default_factory=lambda: ["Clone", "Debug", "PartialEq"])
    attrs: List[List[str]] = field(default_factory=list)       # #[strum(..)] attributes on the enum
    disc_attrs: List[List[str]] = field(default_factory=list)  # #[strum_discriminants(..)]
    raw_attrs: List[str] = field(default_factory=list)
    repr: Optional[str] = None
    gparams: str = ""
    gwhere: str = ""
    vis: str = "pub"
    prelude: str = ""
    std_only: bool = False          # uses deprecated ::std derives or phf
    phf: bool = False
    twin_of: Optional[str] = None
    module: str = ""
    notes: Dict[str, object] = field(default_factory=dict)
    only_std: bool = False          # compiled in the std configuration only (large exhaustive families)

    def render(self, renamed_attr: bool = True) -> str:
        out = ["#![allow(dead_code, unused_imports, deprecated, non_camel_case_types, non_snake_case, unused_variables, unreachable_patterns, unused_parens)]",
               "use crate::prelude::*;",
               "#[cfg(feature = \"shadow\")] mod core {}",
               "#[cfg(feature = \"shadow\")] mod std {}",
               self.prelude]
        ders = list(self.std_derives) + [d for d in self.derives]
        out.append("#[derive(%s)]" % ", ".join(ders))
        for r in getattr(self, "pre_attrs", []) or []:
            out.append(r)
        if self.repr:
            out.append("#[repr(%s)]" % self.repr)
        single = sum(ord(c) for c in self.name) % 2 == 1      # half of the enums configure a single-segment local alias
        # legal spellings of one path: plain, with blanks, through raw-identifier and non-ASCII module names, from the extern prelude
        cpath = "st" if single else ["crate::reexp::strum_renamed", "crate :: reexp :: strum_renamed", "crate::reexp::r#mod::r\u00e9export::strum_renamed",
                                     "::strum_renamed"][(sum(ord(c) for c in self.name) // 2) % 4]
        if any(d in STRUM_DERIVES for d in self.derives):
            if single:
                out.insert(4, "#[cfg(feature = \"renamed\")] use crate::reexp::strum_renamed as st;")
        # the `crate = ..` attribute is written before the other enum-level #[strum(..)] attributes for a third of the enums,
        # after them for a third, and between them otherwise (a derive that reads only the first / last attribute loses it)
        crate_line = "#[cfg_attr(feature = \"renamed\", strum(crate = \"%s\"))]" % cpath if any(d in STRUM_DERIVES for d in self.derives) else None
        pos = (sum(ord(c) for c in self.name) // 2) % 3
        attr_lines = ["#[strum(%s)]" % ", ".join(a) for a in self.attrs if a]
        if crate_line:
            at = 0 if pos == 0 else (len(attr_lines) if pos == 1 else (len(attr_lines) + 1) // 2)
            attr_lines.insert(at, crate_line)
        out += attr_lines
        for a in []:
            if a:
                out.append("#[strum(%s)]" % ", ".join(a))
        if any(("derive(" in m and any(d in m for d in STRUM_DERIVES)) for a in self.disc_attrs for m in a):
            out.append("#[cfg_attr(feature = \"renamed\", strum_discriminants(strum(crate = \"%s\")))]" % cpath)
        for a in self.disc_attrs:
            if a:
                out.append("#[strum_discriminants(%s)]" % ", ".join(a))
        out += self.raw_attrs
        out.append("%s enum %s%s %s {" % (self.vis, self.name, self.gparams, self.gwhere))
        for v in self.variants:
            out.append(v.render())
        out.append("}")
        return "\n".join(x for x in out if x != "") + "\n"


PRELUDE = r'''
#![allow(dead_code, unused_imports, deprecated)]
pub use STRUM::{EnumString, Display, AsRefStr, IntoStaticStr, VariantNames, EnumIter, EnumCount, FromRepr, VariantArray,
    EnumDiscriminants, EnumIs, EnumTryAs, EnumMessage, EnumProperty, EnumTable, AsStaticStr, EnumVariantNames};
#[cfg(feature = "std")]
pub use STRUM::ToString;

/// A no_std friendly, allocation free text type: From<&str> + Display + AsRef<str> + Default.
#[derive(Clone, Copy, Debug, PartialEq, Eq)]
pub struct Txt { len: usize, buf: [u8; 32] }
impl Default for Txt { fn default() -> Self { Txt { len: 0, buf: [0; 32] } } }
impl From<&str> for Txt {
    fn from(s: &str) -> Self {
        let mut t = Txt::default();
        let b = s.as_bytes();
        let mut n = if b.len() < 32 { b.len() } else { 32 };
        while n > 0 && !s.is_char_boundary(n) { n -= 1; }
        t.buf[..n].copy_from_slice(&b[..n]);
        t.len = n;
        t
    }
}
impl AsRef<str> for Txt { fn as_ref(&self) -> &str { ::core::str::from_utf8(&self.buf[..self.len]).unwrap_or("") } }
impl ::core::fmt::Display for Txt {
    fn fmt(&self, f: &mut ::core::fmt::Formatter<'_>) -> ::core::fmt::Result { ::core::fmt::Display::fmt(self.as_ref(), f) }
}
pub fn dw_u8() -> u8 { 7 }
pub fn dw_i32() -> i32 { -3 }
pub fn dw_txt() -> Txt { Txt::from("dw") }
#[derive(Debug, PartialEq, Eq, Clone, Copy)]
pub struct MyErr(pub usize);
pub fn my_err(s: &str) -> MyErr { MyErr(s.len()) }
pub fn not_found(s: &str) -> MyErr { MyErr(s.len() + 7) }
pub mod errs { pub use super::MyErr as Deep; pub fn deep(s: &str) -> Deep { super::MyErr(s.len() + 1) } }
pub const K5: u8 = 5;
pub const KM2: i16 = -2;

/// Payload type for transparent variants: Display + AsRef<str> + Into<&'static str>.
#[derive(Clone, Copy, Debug, PartialEq, Eq)]
pub enum Inner { X, Y }
impl Default for Inner { fn default() -> Self { Inner::X } }
impl ::core::fmt::Display for Inner {
    fn fmt(&self, f: &mut ::core::fmt::Formatter<'_>) -> ::core::fmt::Result { f.pad(match self { Inner::X => "ix", Inner::Y => "iy" }) }
}
impl AsRef<str> for Inner { fn as_ref(&self) -> &str { match self { Inner::X => "ix", Inner::Y => "iy" } } }
impl<'a> From<&'a Inner> for &'static str { fn from(i: &'a Inner) -> &'static str { match i { Inner::X => "ix", Inner::Y => "iy" } } }
'''


# ------------------------------------------------------------------------------------------------
# families
# ------------------------------------------------------------------------------------------------

STYLES = [None] + list(S.STYLE_TABLE.keys())

IDENT_DICT = [
    "Red", "DarkBlue", "HTTPServer", "XMLHttpRequest", "Foo2Bar", "A", "Ab", "AB", "ABc", "aB", "snake_case_name", "SCREAMING_NAME",
    "Mixed_Case_Name", "Trailing_", "X1", "X1y", "X12Y", "Version2", "V2Beta3", "IOError", "Utf8Text", "Big5", "A1B2", "ÉcoleNormale",
    "ÜberCool", "Straße", "With__Double", "numb3rs", "Id", "ID", "IDs", "HtmlID", "PNGImage", "PngImage", "Ok200", "Err404NotFound",
    "aBcDe", "ABCDe", "ZLast", "Q", "Tx_2", "Rgb8u", "I18n", "K8sPod",
]


def uniq_spelling(cls: str, e: int, v: int, k: int) -> str:
    """A spelling of alphabet class `cls`, unique per (enum, variant, index) even after ASCII case folding."""
    tag = "%d_%d_%d" % (e, v, k)
    if cls == "mixed":
        return "Sp%sAbZ" % tag
    if cls == "lower":
        return "sp%sabz" % tag
    if cls == "upper":
        return "SP%sABZ" % tag
    if cls == "caseless":
        return "%s-!.9" % tag
    if cls == "nonascii":
        return "Sp%séß" % tag
    if cls == "kelvin":
        return "Sp%sKſık" % tag   # Kelvin sign, long s, dotless i
    if cls == "space":
        return "Sp %s a b" % tag
    raise ValueError(cls)


ALPHABETS = ["mixed", "lower", "upper", "caseless", "nonascii", "kelvin", "space"]


def family_strings(rng: random.Random, count: int, start: int) -> List[E]:
    """Family A: naming x kind x flags x enum options for the string derives."""
    out = []
    kinds = ["unit", "t0", "t1", "t2", "t3", "n0", "n1", "n2", "n3", "t1ref"]
    namings = ["none", "ts", "ser1", "ser2_long_first", "ser2_long_last", "ser3_long_mid", "ser2_tie", "ser_ts", "split_attrs", "ts_placeholder", "ts_escaped_braces",
               "ser3_LSM", "ser3_LMS", "ser3_SML", "ser3_MLS", "ser3_MSL", "ser_ts_casepair", "ser_ts_same"]
    vflags = ["", "", "", "aci", "aci_true", "aci_false", "disabled", "default", "transparent", "default_with"]
    prefixes = [None, None, "p_", "", "é·", "Pre Fix/"]
    for i in range(count):
        eid = start + i
        style = STYLES[i % len(STYLES)] if i < 2 * len(STYLES) else rng.choice(STYLES)
        e_aci = (i // 2) % 2 == 1 if i < 40 else rng.random() < 0.4
        prefix = prefixes[i % len(prefixes)] if i < 36 else rng.choice(prefixes)
        parse_err = (i % 5 == 3)
        const_into = (i % 7 == 2)
        nvar = 4 + (i % 5)
        vs: List[V] = []
        have_default = False
        have_placeholder = False
        for j in range(nvar):
            kind = kinds[(i * 3 + j) % len(kinds)] if i < 30 else rng.choice(kinds)
            naming = namings[(i * 5 + j * 2) % len(namings)] if i < 33 else rng.choice(namings)
            flag = vflags[(i * 7 + j * 3) % len(vflags)] if i < 40 else rng.choice(vflags)
            alpha = ALPHABETS[(i + j) % len(ALPHABETS)] if i < 28 else rng.choice(ALPHABETS)
            name = ["Red", "DarkBlue", "HTTPServer", "Foo2Bar", "snake_name", "X1y", "Utf8Text", "ÉcoleN", "ID", "Q"][(i + j * 3) % 10] + ("%d" % j if j >= 0 else "")
            # --- flags constrain the kind
            fields: List[Tuple[Optional[str], str]] = []
            field_attrs: Dict[int, List[str]] = {}
            metas: List[str] = []
            if flag == "default":
                if have_default:
                    flag = ""
                else:
                    have_default = True
                    kind = "t1" if (i + j) % 2 == 0 else "n1"
            if flag == "transparent" and const_into:
                flag = ""      # From::from is not const: transparent + const_into_str cannot compile
            if flag == "transparent":
                kind = ["t1", "n1", "t1ref"][(i + j) % 3]
            if flag == "default_with" and kind in ("unit", "t0", "n0", "t1ref"):
                kind = "t1" if (i + j) % 2 == 0 else "n2"
            if kind == "unit":
                vk = "unit"
            elif kind.startswith("t"):
                vk = "tuple"
                if kind == "t1ref":
                    fields = [(None, "&'static str")]
                else:
                    tys = ["u8", "Txt", "i32"]
                    fields = [(None, tys[q % 3]) for q in range(int(kind[1:]))]
            else:
                vk = "named"
                tys = ["u8", "Txt", "i32"]
                fields = [("f%d" % q, tys[q % 3]) for q in range(int(kind[1:]))]
            if flag == "default":
                fields = [(fields[0][0], "Txt")]
                metas.append("default")
            elif flag == "transparent":
                if kind != "t1ref":
                    fields = [(fields[0][0], "Inner")]
                metas.append("transparent")
            elif flag == "default_with":
                if vk == "tuple":
                    fields = [(None, "u8")]
                    metas.append('default_with = "dw_u8"')
            elif flag == "aci":
                metas.append("ascii_case_insensitive")
            elif flag == "aci_true":
                metas.append("ascii_case_insensitive = true")
            elif flag == "aci_false":
                metas.append("ascii_case_insensitive = false")
            elif flag == "disabled":
                metas.append("disabled")
                if (i + j) % 3 == 0 and not have_default and kind in ("t1", "n1"):
                    # a disabled variant that is also marked default must not become the catch-all
                    fields = [(fields[0][0], "Txt")]
                    metas.append("default")
            # --- naming
            attrs: List[List[str]] = []
            sp = lambda k: uniq_spelling(alpha, eid, j, k)
            if naming == "ts":
                metas.append("to_string = %s" % rstr(sp(0)))
            elif naming == "ser1":
                metas.append("serialize = %s" % rstr(sp(0)))
            elif naming == "ser2_long_first":
                metas += ["serialize = %s" % rstr(sp(0) + "longer"), "serialize = %s" % rstr(sp(1))]
            elif naming == "ser2_long_last":
                metas += ["serialize = %s" % rstr(sp(0)), "serialize = %s" % rstr(sp(1) + "longer")]
            elif naming == "ser3_long_mid":
                metas += ["serialize = %s" % rstr(sp(0)), "serialize = %s" % rstr(sp(1) + "longest"), "serialize = %s" % rstr(sp(2))]
            elif naming == "ser2_tie":
                metas += ["serialize = %s" % rstr(sp(0)), "serialize = %s" % rstr(sp(1))]
            elif naming.startswith("ser3_") and naming != "ser3_long_mid":
                # every order of a (S)hort, (M)edium and (L)ong serialize value
                suffix = {"S": "", "M": "mid", "L": "muchlonger"}
                metas += ["serialize = %s" % rstr(sp(q) + suffix[ch]) for q, ch in enumerate(naming[5:])]
            elif naming == "ser_ts_casepair":
                # serialize and to_string differ only in ASCII case
                base_ = uniq_spelling("mixed", eid, j, 0)
                metas += ["serialize = %s" % rstr(base_.lower()), "to_string = %s" % rstr(base_.upper())]
            elif naming == "ser_ts_same":
                metas += ["serialize = %s" % rstr(sp(0)), "to_string = %s" % rstr(sp(0))]
            elif naming == "ser_ts":
                metas += ["serialize = %s" % rstr(sp(0) + "quite-long"), "to_string = %s" % rstr(sp(1))]
            elif naming == "split_attrs":
                attrs.append(["serialize = %s" % rstr(sp(0))])
                metas.append("serialize = %s" % rstr(sp(1) + "xx"))
            elif naming == "ts_placeholder":
                if fields and flag not in ("transparent", "default") and kind != "t1ref":
                    have_placeholder = True
                    if vk == "tuple":
                        order = list(range(len(fields)))
                        if (i + j) % 3 == 1:
                            order = order[::-1]                      # descending: {2} {1} {0}
                        elif (i + j) % 3 == 2 and len(order) > 1:
                            order = order[1:] + order[:1] + order[-1:]   # rotated with a repeated index
                        ph = " ".join(["{%d}" % q if q % 2 == 0 else "{%d:>4}" % q for q in order])
                    else:
                        ph = " ".join(["{%s}" % n if q % 2 == 0 else "{%s:03}" % n for q, (n, _t) in enumerate(fields)][: max(1, len(fields) - (1 if len(fields) > 2 else 0))])
                        # a named variant may leave fields unused
                    metas.append("to_string = %s" % rstr(sp(0) + " " + ph))
                    # numeric format specs need numeric fields
                    fields = [(n, "u8") for (n, _t) in fields]
                else:
                    metas.append("to_string = %s" % rstr(sp(0)))
            elif naming == "ts_escaped_braces":
                if fields and flag not in ("transparent", "default") and kind != "t1ref" and vk == "named":
                    have_placeholder = True
                    metas.append("to_string = %s" % rstr(sp(0) + "{{" + "{%s}" % fields[0][0] + "}}"))
                    fields = [(n, "u8") for (n, _t) in fields]
                else:
                    metas.append("to_string = %s" % rstr(sp(0)))
            if flag == "default_with" and vk == "named":
                dw = {"u8": "dw_u8", "Txt": "dw_txt", "i32": "dw_i32"}
                field_attrs[0] = ['default_with = "%s"' % dw[fields[0][1]]]
                if len(fields) > 1:
                    field_attrs[1] = ['default_with = "%s"' % dw[fields[1][1]]]
            if metas:
                # sometimes split the metas over several attributes
                if len(metas) > 1 and (i + j) % 4 == 0:
                    attrs.append(metas[:1])
                    attrs.append(metas[1:])
                else:
                    attrs.append(metas)
            vs.append(V(name, vk, fields, attrs, field_attrs=field_attrs))
        eattrs: List[str] = []
        if style is not None:
            eattrs.append("serialize_all = %s" % rstr(style))
        if e_aci:
            eattrs.append("ascii_case_insensitive")
        if prefix is not None:
            eattrs.append("prefix = %s" % rstr(prefix))
        if parse_err:
            if i % 2 == 0:
                eattrs += ["parse_err_ty = MyErr", "parse_err_fn = my_err"]
            else:
                eattrs += ["parse_err_fn = errs::deep", "parse_err_ty = errs::Deep"]
        if const_into:
            eattrs.append("const_into_str")
        derives = ["EnumString", "Display", "AsRefStr", "IntoStaticStr", "VariantNames", "EnumMessage", "AsStaticStr"]
        e = E("Str%04d" % eid, "strings", derives, vs, attrs=[eattrs] if (i % 3) else [[a] for a in eattrs])
        e.notes = {"has_placeholder": have_placeholder}
        out.append(e)
    return out


def family_unit_strings(rng: random.Random, count: int, start: int) -> List[E]:
    """Family A2: field-less string enums (phf-eligible), each emitted with a use_phf twin."""
    out = []
    for i in range(count):
        eid = start + i
        style = [None, "snake_case", "UPPERCASE", "lowercase", "kebab-case", "SCREAMING_SNAKE_CASE", "Train-Case"][i % 7]
        e_aci = i % 3 == 1
        nvar = 3 + i % 5
        vs = []
        have_default = False
        for j in range(nvar):
            alpha = ALPHABETS[(i * 2 + j) % len(ALPHABETS)]
            name = ["Alpha", "betaGamma", "DELTA", "Eps1lon", "zeta_eta", "Θeta", "Iota9"][(i + j) % 7] + str(j)
            metas = []
            naming = ["none", "ser1", "ts", "ser2", "none", "ser_ts"][(i + j * 5) % 6]
            sp = lambda k: uniq_spelling(alpha, eid, j, k)
            if naming == "ser1":
                metas.append("serialize = %s" % rstr(sp(0)))
            elif naming == "ts":
                metas.append("to_string = %s" % rstr(sp(0)))
            elif naming == "ser2":
                metas += ["serialize = %s" % rstr(sp(0)), "serialize = %s" % rstr(sp(1) + "x")]
            elif naming == "ser_ts":
                metas += ["serialize = %s" % rstr(sp(0)), "to_string = %s" % rstr(sp(1) + "y")]
            flag = ["", "aci", "aci_false", "disabled", "", "default", "aci_true", ""][(i * 3 + j) % 8]
            kind, fields = "unit", []
            if flag == "aci":
                metas.append("ascii_case_insensitive")
            elif flag == "aci_true":
                metas.append("ascii_case_insensitive = true")
            elif flag == "aci_false":
                metas.append("ascii_case_insensitive = false")
            elif flag == "disabled":
                metas.append("disabled")
            elif flag == "default" and not have_default:
                have_default = True
                metas.append("default")
                kind, fields = "tuple", [(None, "Txt")]
            vs.append(V(name, kind, fields, [metas] if metas else []))
        eattrs = []
        if style:
            eattrs.append("serialize_all = %s" % rstr(style))
        if e_aci:
            eattrs.append("ascii_case_insensitive")
        if i % 6 == 4:
            eattrs += ["parse_err_ty = MyErr", "parse_err_fn = my_err"]
        e = E("Ust%04d" % eid, "unit_strings", ["EnumString", "Display", "AsRefStr", "IntoStaticStr", "VariantNames"], vs, attrs=[eattrs])
        out.append(e)
        twin = E(e.name, "unit_strings_phf", ["EnumString"], [V(v.name, v.kind, list(v.fields), [list(a) for a in v.attrs]) for v in vs],
                 attrs=[eattrs + ["use_phf"]], std_only=True, phf=True, twin_of=e.name)
        out.append(twin)
    return out


def family_overlap(start: int) -> List[E]:
    """Family A3 (C16 only): field-less enums whose spellings overlap across variants. C01/C02/C12 exclude them
    (their domain is non-overlapping spellings); C16 quantifies over every accepted enum."""
    out = []
    shapes = [
        # (enum metas, [(variant, metas)])
        ([], [("First", ['serialize = "foo"', "ascii_case_insensitive"]), ("Second", ['serialize = "Foo"']), ("Third", [])]),
        ([], [("First", ['serialize = "ON"']), ("Second", ['serialize = "on"', "ascii_case_insensitive"]), ("Third", [])]),
        ([], [("First", ['serialize = "x"', 'serialize = "X"', "ascii_case_insensitive"]), ("Second", [])]),
        (["ascii_case_insensitive"], [("First", ['serialize = "mb"', "ascii_case_insensitive = false"]), ("Second", ['serialize = "MB"', "ascii_case_insensitive = false"]), ("Third", ['serialize = "Mb"'])]),
        ([], [("First", ['serialize = "dup"']), ("Second", ['serialize = "dup"']), ("Third", ['to_string = "Dup"', "ascii_case_insensitive"])]),
    ]
    for i, (emetas, vs_) in enumerate(shapes):
        eid = start + i
        vs = [V(n, "unit", [], [m_] if m_ else []) for n, m_ in vs_]
        e = E("Ovl%04d" % eid, "overlap", ["EnumString", "VariantNames", "VariantArray", "EnumCount", "EnumIter", "Display"], vs, attrs=[emetas] if emetas else [], std_derives=["Clone", "Copy", "Debug", "PartialEq"])
        out.append(e)
        out.append(E(e.name, "overlap_phf", ["EnumString"], [V(v.name, v.kind, [], [list(a) for a in v.attrs]) for v in vs], attrs=[emetas + ["use_phf"]], std_only=True, phf=True, twin_of=e.name))
    return out


def family_placeholders(start: int) -> List[E]:
    """Family A4 (C17): placeholder literals in every positional order, with format specs, repeated and unused fields."""
    out = []
    sets = [
        [("Asc", "tuple", ["u8", "u8"], "hue {0}, sat {1}"), ("Desc", "tuple", ["u8", "u8"], "hue {1}, sat {0}"), ("Rot", "tuple", ["u8", "i32", "u8"], "{2}{0}{1}{2}"),
         ("Spec", "tuple", ["u8", "u8"], "{1:>4}|{0:03}"), ("One", "tuple", ["u8"], "{0}{0}{0}"), ("Fixed", "tuple", ["u8", "u8"], "no placeholders here")],
        [("NamedSwap", "named", [("a", "u8"), ("b", "u8")], "{b} then {a}"), ("NamedTwice", "named", [("a", "u8"), ("b", "u8")], "{a}{a}"), ("NamedSpec", "named", [("w", "u8"), ("h", "i32")], "rect {w:>3}x{h:+}"),
         ("NamedEsc", "named", [("a", "u8")], "{{a}}={a}"), ("NamedFixed", "named", [("a", "u8")], "fixed {{}} name"), ("Unit", "unit", [], "plain unit")],
        [("Width", "tuple", ["u8", "usize"], "{0:>1$}"), ("Dbg", "tuple", ["u8", "Txt"], "{1:?}/{0:#x}"), ("Last", "tuple", ["Txt", "u8", "u8"], "{2}-{1}-{0}")],
        # multi-byte text before, between and after placeholders; escaped braces that look like placeholders next to real ones
        [("Quoted", "tuple", ["u8"], "\u201c{0}\u201d"), ("Temp", "named", [("t", "u8")], "\u6e29\u5ea6{t}\u00b0"), ("Arrow", "tuple", ["u8", "u8"], "\u2192{1}\u2190\u00df{0:>3}"),
         ("EscSame", "tuple", ["u8"], "{{0}} = {0}"), ("EscSpec", "tuple", ["u8", "Txt"], "{1:>4}|{{1:>4}}|{0:03}"), ("EscNamed", "named", [("a", "u8")], "{{a}}{a}{{a}}")],
    ]
    dvs = [V("Known", attrs=[["to_string = %s" % rstr("known")]]), V("Unknown", "tuple", [(None, "Txt")], attrs=[["default", "to_string = %s" % rstr("unknown({0})")]])]
    out.append(E("Plh%04d" % (start + 60), "placeholders", ["Display", "EnumString"], dvs, std_derives=["Clone", "Debug"]))
    dvs = [V("Known", attrs=[["to_string = %s" % rstr("known")]]), V("Other", "named", [("raw", "Txt")], attrs=[["to_string = %s" % rstr("other[{raw:>5}]"), "default"]])]
    out.append(E("Plh%04d" % (start + 61), "placeholders", ["Display", "EnumString"], dvs, std_derives=["Clone", "Debug"]))
    evs = [V("Blank", attrs=[["to_string = %s" % rstr("")]]), V("BlankT", "tuple", [(None, "u8")], attrs=[["serialize = %s" % rstr("")]]),
           V("BlankN", "named", [("a", "u8")], attrs=[["to_string = %s" % rstr(""), "serialize = %s" % rstr("bn")]]), V("Full", attrs=[["to_string = %s" % rstr("full")]])]
    out.append(E("Plh%04d" % (start + 62), "placeholders", ["Display", "AsRefStr"], evs, std_derives=["Clone", "Debug"]))
    evs2 = [V("Unspecified", attrs=[["serialize = %s" % rstr("")]]), V("Known", attrs=[["serialize = %s" % rstr("known"), "serialize = %s" % rstr("kn")]]), V("Plain")]
    out.append(E("Plh%04d" % (start + 63), "placeholders", ["Display", "AsRefStr", "IntoStaticStr", "EnumString", "VariantNames"], evs2, std_derives=["Clone", "Debug", "PartialEq"]))
    ser_sets = [("SerNamed", "named", [("sat", "u8")], ['serialize = "s"', 'serialize = "sat={sat:03}%"']), ("SerTuple", "tuple", ["u8", "u8"], ['serialize = "{1}/{0} long"', 'serialize = "t"']),
                ("SerFixed", "tuple", ["u8"], ['serialize = "fixed one"', 'serialize = "f"']), ("SerUnit", "unit", [], ['serialize = "unit name"'])]
    vs = []
    for nm, kind, fields, metas in ser_sets:
        fl = [(None, t) for t in fields] if kind == "tuple" else (list(fields) if kind == "named" else [])
        vs.append(V(nm, kind, fl, [metas]))
    out.append(E("Plh%04d" % (start + 50), "placeholders", ["Display", "EnumString", "AsRefStr"], vs, std_derives=["Clone", "Debug"]))
    out.append(E("Plh%04d" % (start + 51), "placeholders", ["Display", "EnumString"], [V(v.name, v.kind, list(v.fields), [list(a) for a in v.attrs]) for v in vs], attrs=[['prefix = "p/"']], std_derives=["Clone", "Debug"]))
    for i, vs_ in enumerate(sets):
        vs = []
        for nm, kind, fields, lit in vs_:
            fl = [(None, t) for t in fields] if kind == "tuple" else (list(fields) if kind == "named" else [])
            vs.append(V(nm, kind, fl, [["to_string = %s" % rstr(lit)]]))
        for j, extra in enumerate(([], ["prefix = \"px:\""])):
            out.append(E("Plh%04d" % (start + 2 * i + j), "placeholders", ["Display", "EnumString"], [V(v.name, v.kind, list(v.fields), [list(a) for a in v.attrs]) for v in vs],
                         attrs=[extra] if extra else [], std_derives=["Clone", "Debug"]))
    return out


def family_big(start: int, sizes: List[int]) -> List[E]:
    """Family F: unusually large enums, long identifiers, every unit-compatible derive at once."""
    out = []
    for i, n in enumerate(sizes):
        vs = []
        for j in range(n):
            base = ["Alpha", "BravoCharlie", "delta_echo", "FOXTROT", "Golf2Hotel", "IndiaJULIETKilo", "Lima_", "Mike9November10"][j % 8]
            name = "%s%d" % (base, j) if j % 5 else "%s%sVeryLongIdentifierThatGoesOnAndOnAndOnForQuiteAWhile%d" % (base, base, j)
            v = V(name)
            if j % 11 == 7:
                v.attrs = [["disabled"]]
            elif j % 13 == 5:
                v.attrs = [["serialize = %s" % rstr("big%d_%d" % (n, j)), "serialize = %s" % rstr("BIG%d_%d_longer" % (n, j))]]
            elif j % 17 == 3:
                v.attrs = [["to_string = %s" % rstr("Big %d/%d" % (n, j)), "message = %s" % rstr("m%d" % j), "props(k = %d, s = %s)" % (j, rstr("v%d" % j))]]
            if j % 19 == 4:
                v.docs = [" doc %d" % j]
            vs.append(v)
        style = [None, "snake_case", "SCREAMING-KEBAB-CASE"][i % 3]
        attrs = [["serialize_all = %s" % rstr(style)]] if style else []
        out.append(E("Big%04d" % (start + i), "big", ["EnumString", "Display", "AsRefStr", "IntoStaticStr", "VariantNames", "EnumIter", "EnumCount", "FromRepr", "VariantArray",
                                                      "EnumIs", "EnumTable", "EnumDiscriminants", "EnumMessage", "EnumProperty"], vs, attrs=attrs, std_derives=["Clone", "Copy", "Debug", "PartialEq"],
                     repr="u16" if i % 2 else None))
        # use_phf twin (C16): more keys than fit in one byte
        out.append(E("Big%04d" % (start + i), "big_phf", ["EnumString"], [V(v.name, v.kind, [], [list(a) for a in v.attrs]) for v in vs],
                     attrs=[(attrs[0] if attrs else []) + ["use_phf"]], std_derives=["Clone", "Debug", "PartialEq"], std_only=True, phf=True, twin_of="Big%04d" % (start + i)))
    return out


def family_style_ci(start: int) -> List[E]:
    """Family A5: every style string x enum-level / variant-level ascii_case_insensitive, on identifiers without explicit spelling."""
    out = []
    eid = start
    for style in STYLES:
        for e_aci in (False, True):
            vs = [V("HTTPServer"), V("WarnOnly", attrs=[["ascii_case_insensitive = false"]]), V("dark_blue", attrs=[["ascii_case_insensitive"]]),
                  V("Ok", attrs=[["ascii_case_insensitive = true"]]), V("Mixed9Case"),
                  V("\u00c4rger"), V("Gr\u00f6\u00dfe", attrs=[["ascii_case_insensitive"]]), V("\u00c9cole\u00c9t\u00e9", attrs=[["ascii_case_insensitive = false"]])]
            metas = (["serialize_all = %s" % rstr(style)] if style else []) + (["ascii_case_insensitive"] if e_aci else [])
            out.append(E("Sci%04d" % eid, "style_ci", ["EnumString", "Display", "VariantNames", "AsRefStr"], vs, attrs=[metas] if metas else []))
            eid += 1
        # every serialization case-insensitive, more than four of them, data variants and a default variant included
        vs = [V("AlphaOne"), V("beta_two", "tuple", [(None, "u8")]), V("GAMMA3", attrs=[["serialize = \"g3\"", "serialize = \"gamma-three\""]]), V("Delta", "named", [("a", "i32")]),
              V("Epsilon5"), V("Rest", "tuple", [(None, "Txt")], attrs=[["default"]])]
        metas = (["serialize_all = %s" % rstr(style)] if style else []) + ["ascii_case_insensitive"]
        out.append(E("Sci%04d" % eid, "style_ci", ["EnumString", "Display"], vs, attrs=[metas]))
        eid += 1
    return out


def family_raw_idents(start: int) -> List[E]:
    """Family A6: raw-identifier variants. What such a variant's identifier is *as a string* is not fixed by the properties, so the
    oracle-based name checks skip these enums; the relational checks (print/parse round trip, positions) use them."""
    out = []
    for i, style in enumerate([None, "SCREAMING_SNAKE_CASE", "kebab-case"]):
        vs = [V("r#match"), V("r#type", "tuple", [(None, "u8")]), V("Plain"), V("r#loop", attrs=[["serialize = \"explicit-loop\""]]), V("r#Self_like")]
        metas = [["serialize_all = %s" % rstr(style)]] if style else []
        out.append(E("Raw%04d" % (start + i), "raw_idents", ["EnumString", "Display", "AsRefStr", "IntoStaticStr", "VariantNames", "EnumMessage", "EnumIter", "EnumCount"], vs, attrs=metas))
    return out


def family_case_pairs(start: int) -> List[E]:
    """Family A7: case-sensitive spellings that differ only in ASCII case, declared after a variant with its own case flag."""
    out = []
    shapes = [
        ([], [("Loud", ["ascii_case_insensitive", 'serialize = "loud9"']), ("Milli", ['serialize = "m"']), ("Mega", ['serialize = "M"']), ("Plain", [])]),
        ([], [("First", ["ascii_case_insensitive"]), ("Kb", []), ("KB", []), ("kB", [])]),
        (["ascii_case_insensitive"], [("Quiet", ["ascii_case_insensitive = false"]), ("Other7", []), ("Third8", ["ascii_case_insensitive = false", 'to_string = "third"'])]),
        (['serialize_all = "lowercase"'], [("Marked", ["ascii_case_insensitive = true"]), ("Aa", ['serialize = "aa"']), ("Bb", ['serialize = "AA"']), ("CcDd", [])]),
    ]
    for i, (emetas, vs_) in enumerate(shapes):
        vs = [V(n, "unit", [], [m_] if m_ else []) for n, m_ in vs_]
        out.append(E("Cpr%04d" % (start + i), "case_pairs", ["EnumString", "Display", "AsRefStr", "IntoStaticStr", "EnumMessage", "VariantNames"], vs, attrs=[emetas] if emetas else []))
    # one variant's own aliases differing only in ASCII case while that variant is case-sensitive (whatever the enum says); cased
    # non-ASCII letters in case-insensitive spellings next to a catch-all; each with a use_phf twin
    k = start + len(shapes)
    shapes2 = [
        (["ascii_case_insensitive"], [V("Unit", attrs=[["ascii_case_insensitive = false", 'serialize = "abc"', 'serialize = "ABC"', 'serialize = "Abc"']]), V("Other"), V("Plain9")]),
        ([], [V("Size", attrs=[['serialize = "Mb"', 'serialize = "MB"'], ['serialize = "mb"']]), V("Other", attrs=[["ascii_case_insensitive"]]), V("Plain9")]),
        ([], [V("Anger", attrs=[['serialize = "\u00c4rger"', "ascii_case_insensitive"]]), V("Street", attrs=[['serialize = "stra\u00dfe"', "ascii_case_insensitive"]]),
              V("\u00d6l", attrs=[["ascii_case_insensitive"]]), V("\u00c9t\u00e9"), V("Rest", "tuple", [(None, "Txt")], attrs=[["default"]])]),
        (["ascii_case_insensitive"], [V("\u00c4rger"), V("Gr\u00f6\u00dfe", attrs=[['serialize = "GR\u00d6SSE"', 'serialize = "gr\u00f6\u00dfe"']]), V("Rest", "tuple", [(None, "Txt")], attrs=[["default"]])]),
    ]
    for emetas, vs in shapes2:
        ders = ["EnumString", "Display", "AsRefStr", "IntoStaticStr", "VariantNames"]
        if any(v.kind != "unit" for v in vs):
            ders = ["EnumString", "Display"]
        out.append(E("Cpr%04d" % k, "case_pairs", ders, vs, attrs=[emetas] if emetas else []))
        out.append(E("Cpr%04d" % k, "case_pairs_phf", ["EnumString"], [V(v.name, v.kind, list(v.fields), [list(a) for a in v.attrs]) for v in vs],
                     attrs=[emetas + ["use_phf"]], std_only=True, phf=True, twin_of="Cpr%04d" % k))
        k += 1
    # the catch-all variant next to default_with: on the variant (one list / two lists / before / after), on its field
    dshapes = [
        V("Rest", "tuple", [(None, "Txt")], attrs=[["default", 'default_with = "dw_txt"']]),
        V("Rest", "tuple", [(None, "Txt")], attrs=[['default_with = "dw_txt"'], ["default"]]),
        V("Rest", "named", [("raw", "Txt")], attrs=[["default"]], field_attrs={0: ['default_with = "dw_txt"']}),
        V("Rest", "tuple", [(None, "Txt")], attrs=[["default"]], field_attrs={0: ['default_with = "dw_txt"']}),
    ]
    for dv in dshapes:
        vs = [V("First"), V("Pair", "tuple", [(None, "u8"), (None, "u8")]), dv, V("Named", "named", [("a", "i32")], field_attrs={0: ['default_with = "dw_i32"']}), V("Last", "tuple", [(None, "u8")], attrs=[['default_with = "dw_u8"']])]
        out.append(E("Cpr%04d" % k, "case_pairs", ["EnumString", "Display"], vs))
        k += 1
    return out


def family_err_combos(start: int) -> List[E]:
    """Family A8: custom parse error x {no default, default, disabled default, all case-insensitive, bare fn names}."""
    out = []
    shapes = [
        (["parse_err_ty = MyErr", "parse_err_fn = not_found"], [("Alpha", []), ("Beta", ["ascii_case_insensitive"]), ("Gamma3", ['serialize = "g"'])]),
        (["parse_err_ty = MyErr", "parse_err_fn = my_err"], [("Alpha", []), ("Hidden", ["disabled", "default"]), ("Gamma3", [])]),
        (["parse_err_fn = errs::deep", "parse_err_ty = errs::Deep"], [("Alpha", []), ("Hidden", ["default"], ), ("Off", ["disabled"])]),
        (["parse_err_ty = MyErr", "parse_err_fn = my_err", "ascii_case_insensitive"], [("Alpha", []), ("BetaTwo", []), ("Gamma3", []), ("delta_four", []), ("Eps5", ['serialize = "e5"', 'serialize = "eps"'])]),
        (["parse_err_ty = MyErr", "parse_err_fn = my_err"], []),
    ]
    for i, (emetas, vs_) in enumerate(shapes):
        vs = []
        for n, m_ in vs_:
            if "default" in m_:
                vs.append(V(n, "tuple", [(None, "Txt")], [m_]))
            else:
                vs.append(V(n, "unit", [], [m_] if m_ else []))
        out.append(E("Err%04d" % (start + i), "err_combos", ["EnumString", "Display"] if vs else ["EnumString"], vs, attrs=[emetas]))
    return out


def family_casing(rng: random.Random, start: int, idents: List[str], styles: List[Optional[str]], per_enum: int = 8) -> List[E]:
    """Family C: identifier dictionary x every accepted style string."""
    out = []
    eid = start
    for style in styles:
        st = S.STYLE_TABLE[style] if style else None
        # pack identifiers into enums without collisions of the cased names
        remaining = list(idents)
        while remaining:
            chosen, names = [], set()
            rest = []
            for ident in remaining:
                if len(chosen) >= per_enum:
                    rest.append(ident)
                    continue
                cands = {S.case(ident, st), S.case(ident, "lower"), S.snakify(ident)}
                if names & cands:
                    rest.append(ident)
                    continue
                names |= cands
                chosen.append(ident)
            remaining = rest
            vs = [V(n) for n in chosen]
            # one variant keeps an explicit spelling: it must not be re-cased
            if len(vs) >= 3:
                vs[1].attrs = [["serialize = %s" % rstr("Keep_Me-%d As.Is" % eid)]]
                vs[2].attrs = [["to_string = %s" % rstr("keepMe_%d TOO" % eid)]]
            attrs = [["serialize_all = %s" % rstr(style)]] if style else []
            out.append(E("Cas%04d" % eid, "casing", ["VariantNames", "Display", "EnumString", "AsRefStr", "IntoStaticStr", "EnumMessage", "EnumIs"], vs, attrs=attrs))
            eid += 1
    return out


def family_idlen(start: int) -> List[E]:
    """Family C2: enums in which *every* identifier contains underscores, so that under the styles that drop or merge them the
    spelling is shorter than the identifier (and under separator styles the same length); plus leading / trailing / doubled
    underscores. Anything the generator derives from the identifier instead of the spelling (a length bound, a first
    character, a sort key) differs from the spelling here for all variants at once."""
    out = []
    eid = start
    sets = [["NOT_FOUND", "BAD_REQUEST", "PRECONDITION_FAILED", "Add_Assign", "Shift_Left_Assign"],
            ["_Unknown", "Something__Longer", "Trailing_", "__Both__", "a_b_c"]]
    for style in [None] + list(S.DOCUMENTED_STYLES):
        for names in sets:
            st = S.STYLE_TABLE[style] if style else None
            cased = [S.case(n, st) for n in names]
            if len(set(cased)) != len(cased) or "" in cased:
                continue
            attrs = [["serialize_all = %s" % rstr(style)]] if style else []
            e_ = E("Idl%04d" % eid, "idlen", ["VariantNames", "Display", "EnumString", "AsRefStr", "IntoStaticStr", "EnumMessage", "EnumProperty", "EnumIs", "EnumCount"], [V(n) for n in names], attrs=attrs)
            e_.no_foreign_attrs = True      # no variant carries any attribute or doc comment at all
            out.append(e_)
            eid += 1
            out.append(E("Idl%04d" % eid, "idlen", ["EnumString", "Display"], [V(n) for n in names], attrs=attrs + [["ascii_case_insensitive"]]))
            eid += 1
    return out


def family_shared_values(start: int) -> List[E]:
    """Family D2: values shared between variants and keys that collide under a normalisation -- whatever the generator merges,
    de-duplicates, sorts or hoists by value must still answer per variant: identical `message` literals on variants that do /
    do not have a `detailed_message`; identical documentation; property keys that differ only in case or separator style;
    4, 5 and 6 same-type properties per variant declared in non-sorted order and split over several props(..) groups."""
    out = []
    eid = start
    vs = [V("Read", attrs=[["message = %s" % rstr("I/O error")]]),
          V("Write", attrs=[["message = %s" % rstr("I/O error"), "detailed_message = %s" % rstr("the disk is full")]]),
          V("Seek", "tuple", [(None, "u8")], attrs=[["detailed_message = %s" % rstr("the disk is full")]]),
          V("Sync", attrs=[["message = %s" % rstr("I/O error"), "detailed_message = %s" % rstr("I/O error")]]),
          V("Close", "named", [("a", "u8")], attrs=[["message = %s" % rstr("closed")]]),
          V("Gone", attrs=[["message = %s" % rstr("I/O error"), "disabled"]]),
          V("Last", attrs=[["message = %s" % rstr("closed"), "detailed_message = %s" % rstr("closed for good")]])]
    for v in vs[:3]:
        v.docs = [" same documentation"]
    vs[4].docs = [" same documentation"]
    out.append(E("Shv%04d" % eid, "shared_values", ["EnumMessage", "EnumString", "EnumIter"], vs))
    eid += 1
    vs = [V("Mathematics", attrs=[["props(Teacher = %s, room = %s)" % (rstr("Mr.Smith"), rstr("101"))], ["props(maxSize = 30, max_size = 31)"]]),
          V("History", attrs=[["props(teacher = %s)" % rstr("Mrs.Jones")], ["props(Room = %s, MAX_SIZE = 7)" % rstr("7b")], ["props(open = true, Open = false)"]]),
          V("Art", "tuple", [(None, "u8")], attrs=[["props(teacher = %s, Teacher = %s, TEACHER = %s)" % (rstr("a"), rstr("b"), rstr("c"))]]),
          V("Gym", attrs=[["disabled", "props(teacher = %s)" % rstr("nobody")]]), V("Plain")]
    out.append(E("Shv%04d" % eid, "shared_values", ["EnumProperty", "EnumIter"], vs))
    eid += 1
    vs = [V("Box4", attrs=[["props(width = 4, height = 3, depth = 2, area = 12)"]]),
          V("Box5", attrs=[["props(width = 4, height = 3)"], ["props(depth = 2, area = 12, zeta = 1)"]]),
          V("Box6", "named", [("a", "u8")], attrs=[["props(w = %s, h = %s, d = %s)" % (rstr("4"), rstr("3"), rstr("2"))], ["props(a = %s, z = %s, m = %s)" % (rstr("12"), rstr("1"), rstr("0"))]]),
          V("Flags4", attrs=[["props(yes = true, no = false, maybe = true, always = false)"]]),
          V("Mixed", attrs=[["props(width = 4, name = %s, on = true, height = 3, title = %s, off = false, depth = 2, area = 12)" % (rstr("n"), rstr("t"))]]),
          V("Sorted4", attrs=[["props(a = 1, b = 2, c = 3, d = 4)"]]), V("Three", attrs=[["props(c = 3, b = 2, a = 1)"]])]
    out.append(E("Shv%04d" % eid, "shared_values", ["EnumProperty"], vs))
    eid += 1
    # the same keys and the same literal *text* with different literal types; identical property sets on several variants
    vs = [V("AsText", attrs=[["props(code = %s, active = %s)" % (rstr("10"), rstr("true"))]]), V("AsValue", attrs=[["props(code = 10, active = true)"]]),
          V("Same1", attrs=[["props(code = 10, active = true)"]]), V("Same2", "tuple", [(None, "u8")], attrs=[["props(code = 10, active = true)"]]),
          V("Swapped", attrs=[["props(active = true, code = 10)"]]), V("NoProps")]
    out.append(E("Shv%04d" % eid, "shared_values", ["EnumProperty", "EnumIter"], vs))
    eid += 1
    # serializations that share a long prefix (case-sensitive, custom error) / a long suffix
    for k, (pre, suf, extra) in enumerate([("app.user.", "", []), ("", "_changed_event", []), ("color_", "", [["ascii_case_insensitive"]])]):
        vs = [V(n, attrs=[["serialize = %s" % rstr(pre + n.lower() + suf)]]) for n in ["Created", "Deleted", "Renamed", "Banned"]]
        e = E("Shv%04d" % eid, "shared_values", ["EnumString", "Display"], vs,
              attrs=[["parse_err_ty = ShvErr%d" % k, "parse_err_fn = shv_err_%d" % k]] + extra, std_derives=["Clone", "Debug", "PartialEq"])
        e.prelude = "#[derive(Debug, PartialEq)] pub struct ShvErr%d(pub Txt);\npub fn shv_err_%d(s: &str) -> ShvErr%d { ShvErr%d(Txt::from(s)) }" % (k, k, k, k)
        out.append(e)
        eid += 1
        out.append(E("Shv%04d" % eid, "shared_values", ["EnumString", "Display"], [V(v.name, "unit", [], [list(a) for a in v.attrs]) for v in vs] + [V("Other", "tuple", [(None, "Txt")], attrs=[["default"]])],
                     attrs=extra, std_derives=["Clone", "Debug", "PartialEq"]))
        eid += 1
    return out


FOREIGN_ATTRS = ["#[doc(hidden)]", "#[allow(dead_code)]", "#[doc(alias = \"al\")]", "#[cfg(all())]", "#[allow(clippy::all)]"]


def inject_foreign_attributes(es: List[E]):
    """Attributes that are none of strum's business, written before / between the documentation and the #[strum(..)]
    attributes of every third variant (non-string `doc` attributes in particular): what a derive reads from a variant must not
    depend on them or on their position. Enums whose discriminant enum copies attributes (EnumDiscriminants) keep theirs."""
    for e in es:
        if "EnumDiscriminants" in e.derives or e.family in ("big", "big_phf") or getattr(e, "no_foreign_attrs", False):
            continue
        h = sum(ord(c) for c in e.name)
        for j, v in enumerate(e.variants):
            k = (h + j) % 9
            if k == 0:
                v.pre_lines = [FOREIGN_ATTRS[(h + j) % len(FOREIGN_ATTRS)]]
            elif k == 3:
                v.mid_lines = [FOREIGN_ATTRS[(h + 2 * j) % len(FOREIGN_ATTRS)]]
            elif k == 6:
                v.pre_lines = ["#[doc(hidden)]"]
                v.mid_lines = ["#[doc(alias = \"x%d\")]" % j]


def attribute_layout_twins(es: List[E]) -> List[E]:
    """Metamorphic dimension: the same enum with its #[strum(..)] attributes laid out differently -- every key in an attribute
    of its own, all keys of an item merged into one attribute, the attributes in reverse order, enum-level attributes likewise.
    What the oracle expects is read from the laid-out definition itself, so any order-, first/last- or adjacency-dependence of the
    attribute parser shows up as a disagreement."""
    import copy as _copy
    out = []
    pick = [e for e in es if e.family in ("strings", "unit_strings", "messages", "try_as", "err_combos", "style_ci", "iter_unit", "shared_values", "placeholders")
            and not e.phf and not e.twin_of and not e.only_std]
    for n, e in enumerate(pick):
        if n % 3:
            continue
        mode = ("split", "merge", "reverse")[(n // 3) % 3]

        def lay(groups: List[List[str]]) -> List[List[str]]:
            groups = [list(g) for g in groups if g]
            if mode == "split":
                return [[k] for g in groups for k in g]
            if mode == "merge":
                return [[k for g in groups for k in g]] if groups else []
            return list(reversed(groups))
        e2 = _copy.copy(e)
        e2.name = e.name + {"split": "S", "merge": "M", "reverse": "R"}[mode]
        e2.family = "attr_layout"
        e2.attrs = lay(e.attrs)
        e2.variants = []
        for v in e.variants:
            v2 = _copy.copy(v)
            v2.attrs = lay(v.attrs)
            if mode == "reverse" and v.docs and not v.docs_after:
                v2.docs, v2.docs_after = [], list(v.docs)          # documentation after the attributes
            e2.variants.append(v2)
        if getattr(e, "module_override", None):
            e2.module_override = None
        out.append(e2)
    return out


def family_names_edge(start: int) -> List[E]:
    """Family C3: identifiers and explicit spellings at the edges of the naming rules: an explicit spelling equal to the
    identifier itself (the usual way to exempt one variant from serialize_all), identifiers beginning with `r` / `R` / `r#`-like
    prefixes, single letters, and spellings whose alphabetical and length orders disagree (the preferred name is the *longest*
    serialize)."""
    out = []
    eid = start
    for style in [None, "snake_case", "SCREAMING_SNAKE_CASE", "kebab-case", "camelCase", "lowercase", "UPPERCASE"]:
        attrs = [["serialize_all = %s" % rstr(style)]] if style else []
        vs = [V("BrightWhite", attrs=[["serialize = %s" % rstr("BrightWhite")]]), V("MidGray", attrs=[["to_string = %s" % rstr("MidGray")]]),
              V("DarkBlack"), V("rax"), V("r8"), V("read_only"), V("rrStrict"), V("Rust"), V("R"), V("r"),
              V("Control", attrs=[["serialize = %s" % rstr("control"), "serialize = %s" % rstr("ctrl")]]),
              V("Delete", attrs=[["serialize = %s" % rstr("del"), "serialize = %s" % rstr("backspace"), "serialize = %s" % rstr("bksp")]]),
              V("Tie", attrs=[["serialize = %s" % rstr("bb"), "serialize = %s" % rstr("aa")]])]
        st = S.STYLE_TABLE[style] if style else None
        cased = [S.case(v.name, st) for v in vs if not v.attrs]
        if len(set(cased)) != len(cased):
            # styles that merge `R` and `r`: drop the single letters
            vs = [v for v in vs if v.name not in ("r",)]
        out.append(E("Nme%04d" % eid, "names_edge", ["VariantNames", "Display", "EnumString", "AsRefStr", "IntoStaticStr", "EnumMessage"], vs, attrs=attrs))
        eid += 1
    return out


def family_same_name(start: int) -> List[E]:
    """Family B6: two enums with the same name in two modules of one crate, with different variant lists and different disabled
    sets: whatever a derive computes is a function of the enum it is applied to, not of its name."""
    out = []
    for k, ders in enumerate([["EnumIter", "EnumCount", "VariantArray", "VariantNames"], ["EnumIs", "EnumTryAs", "EnumString", "Display"], ["EnumTable", "FromRepr", "EnumProperty", "EnumMessage"]]):
        legacy = ("pub mod legacy { use crate::prelude::*;\n#[derive(Clone, Debug, PartialEq, %s)]\n"
                  "#[cfg_attr(feature = \"renamed\", strum(crate = \"crate::reexp::strum_renamed\"))]\n"
                  "pub enum Mode { Off, On, #[strum(disabled)] Auto } }" % ", ".join(ders))
        tup = k == 1
        vs = [V("Off"), V("On"), V("Auto", "tuple", [(None, "u8")]) if tup else V("Auto"), V("Eco", attrs=[["disabled"]]), V("Max")]
        e = E("Mode", "same_name", ders, vs, std_derives=["Clone", "Debug", "PartialEq"])
        e.module_override = "samename%d" % (start + k)
        # a third one with the same variant *names* as the main enum and another disabled set
        third = ("pub mod third { use crate::prelude::*;\n#[derive(Clone, Debug, PartialEq, %s)]\n"
                 "#[cfg_attr(feature = \"renamed\", strum(crate = \"crate::reexp::strum_renamed\"))]\n"
                 "pub enum Mode { #[strum(disabled)] Off, On, Auto%s, Eco, #[strum(disabled)] Max } }" % (", ".join(ders), "(u8)" if tup else ""))
        e.prelude = legacy + "\n" + third
        out.append(e)
    return out


def family_snake_collisions(start: int) -> List[E]:
    """Family B5: a disabled variant whose snake_case name equals an enabled variant's (IoError / IOError): per-variant items keyed
    by the snake-cased name (table slots, is_* / try_as_* methods) exist for the enabled one only."""
    out = []
    vs = [V("IoError"), V("IOError", attrs=[["disabled"]]), V("Http2"), V("HTTP2", attrs=[["disabled"]]), V("Plain"), V("plain", attrs=[["disabled"]]), V("Last")]
    out.append(E("Snk%04d" % start, "snake_collisions", ["EnumTable", "EnumIs", "EnumIter", "EnumCount", "VariantArray"], vs, std_derives=["Clone", "Copy", "Debug", "PartialEq"]))
    vs3 = [V("Ma\u00df1"), V("Wei\u00df20"), V("Caf\u00e94Cr\u00e8me"), V("\u00c9t\u00e92", attrs=[["disabled"]]), V("Plain7")]
    out.append(E("Snk%04d" % (start + 2), "snake_collisions", ["EnumTable", "EnumIs"], vs3, std_derives=["Clone", "Copy", "Debug", "PartialEq"]))
    out.append(E("Snk%04d" % (start + 3), "snake_collisions", ["EnumTryAs", "EnumIs"], [V(v.name, "tuple", [(None, "u8")], [list(a) for a in v.attrs]) for v in vs3]))
    vs2 = [V("IoError", "tuple", [(None, "u8")]), V("IOError", "tuple", [(None, "u8")], attrs=[["disabled"]]), V("A1", "tuple", [(None, "i32"), (None, "u8")]), V("a_1", "tuple", [(None, "i32"), (None, "u8")], attrs=[["disabled"]])]
    out.append(E("Snk%04d" % (start + 1), "snake_collisions", ["EnumTryAs", "EnumIs"], vs2))
    return out


REPRS = [None, "u8", "i8", "u16", "i16", "u32", "i32", "u64", "i64", "usize", "isize"]


def family_iter(rng: random.Random, start: int, thorough: bool) -> List[E]:
    """Family B: variant count x disabled placement x kinds x discriminants x repr x generics."""
    out = []
    eid = start
    placements = ["none", "first", "middle", "last", "adjacent", "all", "alternate"]
    # B1: unit-only enums: EnumIter, EnumCount, FromRepr, VariantArray, VariantNames, EnumTable, EnumIs, EnumDiscriminants
    for n in range(0, 10):
        for pl in placements:
            if n == 0 and pl != "none":
                continue
            dis = disabled_set(n, pl)
            if pl != "none" and not dis:
                continue
            vs = []
            for j in range(n):
                v = V(["North", "SouthEast", "West2", "up_down", "Q", "HTTPGet", "Z9", "mid", "Last_", "Extra"][j])
                if j in dis:
                    v.attrs = [["disabled"]]
                    # `disabled` sharing its attribute list with other keys, in either order, or split over two attributes
                    if (n * 3 + j) % 4 == 1:
                        v.attrs = [["disabled", "message = %s" % rstr("m%d" % j)]]
                    elif (n * 3 + j) % 4 == 2:
                        v.attrs = [["serialize = %s" % rstr("off%d_%d" % (n, j)), "disabled"]]
                    elif (n * 3 + j) % 4 == 3:
                        v.attrs = [["to_string = %s" % rstr("Off %d %d" % (n, j))], ["disabled"]]
                    # other attributes before / after the strum attribute
                    if (n + j) % 3 == 0:
                        v.docs = [" documented, then disabled"]
                    elif (n + j) % 3 == 1:
                        v.raw_attrs = ["#[allow(dead_code)]"]
                        v.attrs_after_raw = True
                vs.append(v)
            derives = ["EnumIter", "EnumCount", "FromRepr", "VariantArray", "VariantNames", "EnumIs"]
            if n > 0:
                derives.append("EnumDiscriminants")
                derives += ["EnumMessage", "EnumProperty"]
            if n - len(dis) > 0:
                derives.append("EnumTable")
            e = E("Itr%04d" % eid, "iter_unit", derives, vs, std_derives=["Clone", "Copy", "Debug", "PartialEq"])
            e.notes = {"n": n, "placement": pl}
            out.append(e)
            eid += 1
    # B2: discriminant forms x repr (unit enums) with disabled placement
    forms = ["implicit", "explicit_all", "gapped", "descending", "first_only", "expr", "const_ref", "negative"]
    for ri, rp in enumerate(REPRS):
        for fi, form in enumerate(forms):
            signed = rp in ("i8", "i16", "i32", "i64", "isize")
            if form == "negative" and not signed:
                continue
            if form == "const_ref" and rp not in ("u8", "i16"):
                continue
            for pl in (["none", "first", "middle", "last"] if (thorough or (ri + fi) % 3 == 0) else [["none", "middle", "first", "last"][(ri + fi) % 4]]):
                n = 5
                dis = disabled_set(n, pl)
                vs = []
                for j in range(n):
                    v = V(["Zero", "One", "Two", "Three", "Four"][j])
                    d = None
                    if form == "explicit_all":
                        d = str(j * 3 + 1)
                    elif form == "gapped":
                        d = {1: "10", 3: "20"}.get(j)
                    elif form == "descending":
                        d = str(40 - j * 10) if j % 2 == 0 else None
                    elif form == "first_only":
                        d = "7" if j == 0 else None
                    elif form == "expr":
                        d = {0: "1 << 3", 2: "4 + 3 * 5", 4: "100 / 4"}.get(j)
                    elif form == "const_ref":
                        d = {1: ("K5" if rp == "u8" else "KM2"), 3: ("K5 + 20" if rp == "u8" else "KM2 + 50")}.get(j)
                    elif form == "negative":
                        d = {0: "-5", 2: "-1", 3: "3"}.get(j)
                    v.disc = d
                    if j in dis:
                        v.attrs = [["disabled"]]
                    vs.append(v)
                e = E("Rep%04d" % eid, "repr", ["FromRepr", "EnumIter", "EnumCount", "EnumDiscriminants", "VariantArray", "EnumTable", "EnumIs", "VariantNames"], vs, repr=rp,
                      std_derives=["Clone", "Copy", "Debug", "PartialEq"])
                e.notes = {"form": form, "repr": rp, "placement": pl}
                out.append(e)
                eid += 1
    # B3: data-carrying enums
    kinds = ["unit", "t1", "n2", "t3", "t0", "n0", "t2", "n1"]
    for n in [1, 2, 3, 5, 8]:
        for pl in ["none", "first", "middle", "last", "all"]:
            dis = disabled_set(n, pl)
            if pl != "none" and not dis:
                continue
            vs = []
            for j in range(n):
                k = kinds[(j + n) % len(kinds)]
                name = ["Plain", "Wrap", "Point", "Triple", "EmptyT", "EmptyS", "Pair", "Single"][(j + n) % 8] + str(j)
                if k == "unit":
                    v = V(name)
                elif k.startswith("t"):
                    v = V(name, "tuple", [(None, ["u8", "Txt", "i32"][q % 3]) for q in range(int(k[1:]))])
                else:
                    v = V(name, "named", [("g%d" % q, ["i32", "u8", "Txt"][q % 3]) for q in range(int(k[1:]))])
                if j in dis:
                    v.attrs = [["disabled"]]
                vs.append(v)
            for rp in ([None, "u8"] if n in (3, 5) else [None]):
                vs2 = [V(v.name, v.kind, list(v.fields), [list(a) for a in v.attrs]) for v in vs]
                if rp and n >= 3:
                    vs2[1].disc = "9"
                e = E("Dat%04d" % eid, "iter_data", ["EnumIter", "EnumCount", "FromRepr", "EnumIs", "EnumTryAs", "EnumDiscriminants", "VariantNames", "EnumMessage", "EnumProperty"], vs2, repr=rp)
                e.notes = {"n": n, "placement": pl}
                out.append(e)
                eid += 1
    # B3b: combined representation hints on data-carrying enums (C + integer type is only legal with fields)
    for rp, pre in [("C, u8", []), ("u16, C", []), ("i8", ["#[repr(C)]"]), ("C", ["#[repr(u32)]"]), ("align(8), u8", [])]:
        vs = [V("Unit0"), V("Tup1", "tuple", [(None, "u8")]), V("Rec2", "named", [("a", "i32")]), V("Off3", "tuple", [(None, "u8")], attrs=[["disabled"]]), V("Last4")]
        vs[1].disc = "3"
        vs[4].disc = "9"
        e = E("Dat%04d" % eid, "iter_data", ["FromRepr", "EnumIter", "EnumCount", "EnumIs", "VariantNames"], vs, repr=rp)
        e.pre_attrs = pre
        e.notes = {"repr": rp}
        out.append(e)
        eid += 1
    # B4: generics
    gens = [
        ("<T: Default + Clone + ::core::fmt::Debug + PartialEq>", "", [V("Unit0"), V("Hold1", "tuple", [(None, "T")]), V("Rec2", "named", [("t", "T"), ("n", "u8")])]),
        ("<T, U>", "where T: Default + Clone + ::core::fmt::Debug + PartialEq, U: Default + Clone + ::core::fmt::Debug + PartialEq",
         [V("First0", "tuple", [(None, "T")]), V("Second1", "tuple", [(None, "U"), (None, "T")]), V("None2")]),
        ("<const N: usize>", "", [V("Arr0", "tuple", [(None, "::core::marker::PhantomData<[u8; N]>")]), V("Nil1")]),
        ("<T: Default + Clone + ::core::fmt::Debug + PartialEq, const M: usize>", "", [V("Gen0", "tuple", [(None, "T")]), V("Mark1", "named", [("m", "::core::marker::PhantomData<[T; M]>")]), V("Off2", attrs=[["disabled"]]), V("End3")]),
    ]
    for gp, gw, vs in gens:
        e = E("Gen%04d" % eid, "generic", ["EnumIter", "EnumCount", "FromRepr", "EnumIs", "EnumTryAs", "EnumString", "AsRefStr", "IntoStaticStr", "VariantNames", "EnumDiscriminants"], vs, gparams=gp, gwhere=gw)
        out.append(e)
        eid += 1
    return out


def disabled_set(n: int, pl: str) -> set:
    if n == 0 or pl == "none":
        return set()
    if pl == "first":
        return {0}
    if pl == "last":
        return {n - 1}
    if pl == "middle":
        return {n // 2} if n >= 3 else set()
    if pl == "adjacent":
        return {1, 2} if n >= 4 else set()
    if pl == "all":
        return set(range(n))
    if pl == "alternate":
        return set(range(0, n, 2)) if n >= 3 else set()
    raise ValueError(pl)


def family_messages(rng: random.Random, start: int, count: int) -> List[E]:
    """Family D: messages, detailed messages, docs, props."""
    out = []
    doc_sets = [[], [" One line."], ["No leading space"], [" First", " Second"], [" a", "", "  two spaces", "\ttab"], [" quote \" and \\ backslash"], ["", ""], [" é unicode"],
                [""], [" "], ["", " after an empty first line"]]
    prop_sets = [
        [],
        [['a = "x"']],
        [['n = 5', 'flag = true']],
        [['s = "one"', 'n = -7'], ['t = "two"', 'b = false']],
        [['type = "kw"', 'r#match = "raw"', 'big = 9223372036854775807']],
        [['shared = "s"', 'shared2 = 1'], ['shared3 = true']],
        [['k = "v"', 'k2 = "v2"', 'k3 = 3', 'k4 = 4', 'k5 = true', 'k6 = false']],
        [['neg = -9223372036854775807', 'zero = 0']],
        [['level = "top"', 'level = 3', 'level = true']],
        [['libellé = "x"', 'quantité = 12', 'périmé = false', 'a = "short"']],
        [['lvl = 1'], ['lvl = "one"', 'other = false']],
    ]
    kinds = ["unit", "t1", "n2", "t0"]
    for i in range(count):
        eid = start + i
        nvar = 3 + i % 4
        vs = []
        for j in range(nvar):
            k = kinds[(i + j) % 4]
            name = ["Info", "Warn2", "HardError", "x_trace"][(i + j) % 4] + str(j)
            if k == "unit":
                v = V(name)
            elif k == "t1":
                v = V(name, "tuple", [(None, "u8")])
            elif k == "t0":
                v = V(name, "tuple", [])
            else:
                v = V(name, "named", [("a", "u8"), ("b", "i32")])
            metas = []
            mm = (i * 3 + j) % 6
            if mm in (1, 3):
                metas.append("message = %s" % rstr("msg %d/%d" % (eid, j)))
            if mm in (2, 3):
                metas.append("detailed_message = %s" % rstr("detail %d/%d \"q\"" % (eid, j)))
            if mm == 4:
                metas += ["message = %s" % rstr(""), "serialize = %s" % rstr("M%d_%d" % (eid, j)), "serialize = %s" % rstr("M%d_%d_b" % (eid, j))]
            if mm == 5:
                metas.append("to_string = %s" % rstr("T%d_%d" % (eid, j)))
            v.docs = list(doc_sets[(i + j * 3) % len(doc_sets)])
            if len(v.docs) >= 2 and (i + j) % 3 == 0:
                # documentation split by the other attributes
                v.docs, v.docs_after = v.docs[:1], v.docs[1:]
            attrs = [metas] if metas else []
            for grp in prop_sets[(i * 2 + j) % len(prop_sets)]:
                attrs.append(["props(%s)" % ", ".join(grp)])
            if (i + j) % 7 == 3:
                if (i + j) % 14 == 3:
                    # `disabled` written before the other keys / attributes
                    attrs = [["disabled"] + attrs[0]] + attrs[1:] if attrs else [["disabled"]]
                elif (i + j) % 21 == 10:
                    attrs.insert(0, ["disabled"])
                else:
                    attrs.append(["disabled"])
            v.attrs = attrs
            vs.append(v)
        eattrs = [["serialize_all = %s" % rstr(["snake_case", "UPPERCASE", "Train-Case"][i % 3])]] if i % 2 else []
        out.append(E("Msg%04d" % eid, "messages", ["EnumMessage", "EnumProperty", "EnumString", "EnumCount", "EnumIter", "VariantNames", "FromRepr", "EnumIs"], vs, attrs=eattrs))
    return out


def family_discriminants(rng: random.Random, start: int) -> List[E]:
    out = []
    eid = start
    base = lambda: [V("Unit0"), V("Tup1", "tuple", [(None, "u8")]), V("Rec2", "named", [("a", "i32"), ("b", "Txt")]), V("Off3", attrs=[["disabled"]]), V("Last4", "tuple", [])]
    configs = [
        ([], "pub"),
        ([["derive(EnumIter, EnumString, Display)"]], "pub"),
        ([["name(Kind%d)" % 1]], "pub"),
        ([["vis(pub(crate))"]], "pub"),
        ([["vis(pub)", "name(PubKind2)"]], ""),
        ([["derive(Hash, PartialOrd, Ord)"], ["name(Ordered3)", "doc = \" Docs on the generated type\""]], "pub"),
        ([["derive(EnumString, VariantNames, EnumCount, FromRepr, EnumIs)", "strum(serialize_all = \"snake_case\")"]], "pub"),
        ([["vis(pub(super))", "derive(EnumIter)"]], "pub(crate)"),
        ([["allow(dead_code)", "derive(IntoStaticStr, AsRefStr)", "strum(prefix = \"d_\")"]], "pub"),
        ([["derive(Display, EnumString)", "strum(serialize_all = \"kebab-case\")", "strum(ascii_case_insensitive)"]], "pub"),
        ([["derive(Display, EnumString, VariantNames)"], ["strum(serialize_all = \"SCREAMING_SNAKE_CASE\")"], ["strum(prefix = \"x/\")", "allow(dead_code)", "allow(unused)"]], "pub"),
        ([["derive(EnumString, Display)", "strum(serialize_all = \"snake_case\")"], ["strum(parse_err_ty = DscErr, parse_err_fn = dsc_err)"]], "pub"),
        ([["derive(EnumString)"], ["strum(ascii_case_insensitive)"], ["strum(serialize_all = \"kebab-case\")", "strum(prefix = \"k:\")"]], "pub"),
        # the source enum's own visibility, without a vis(..) override
        ([], "pub(crate)"),
        ([["derive(EnumIter)"]], "pub(super)"),
        ([], ""),
        ([["name(InCrate12)"]], "pub(in crate)"),
    ]
    for ci, (dattrs, vis) in enumerate(configs):
        vs = base()
        if ci == 6:
            vs[1].raw_attrs = ["#[strum_discriminants(strum(serialize = \"tuple-one\"))]"]
        if ci == 1:
            vs[2].raw_attrs = ["#[strum_discriminants(strum(to_string = \"rec\"))]"]
            # a #[strum(..)] attribute of the source variant written *before* the pass-through
            vs[1].attrs = [["to_string = \"tuple one\""]]
            vs[1].raw_attrs = ["#[strum_discriminants(strum(serialize = \"t-one\", serialize = \"t1\"))]"]
            vs[4].mid_lines = ["#[allow(dead_code)]"]
            vs[4].raw_attrs = ["#[strum_discriminants(strum(to_string = \"the-last\"))]"]
        vs[0].docs = [" doc on a variant"]
        e = E("Dsc%04d" % eid, "discriminants", ["EnumDiscriminants"], vs, disc_attrs=dattrs, vis=vis)
        if any("DscErr" in m for a in dattrs for m in a):
            e.prelude = "#[derive(Debug, PartialEq)] pub struct DscErr(pub Txt);\npub fn dsc_err(s: &str) -> DscErr { DscErr(Txt::from(s)) }"
        out.append(e)
        eid += 1
    # explicit discriminants + repr are mirrored
    for rp, discs in [("u8", ["1", None, "7", None, "200"]), ("i16", ["-4", None, None, "300", None]), ("u32", [None, "1 << 4", None, None, None]), ("i64", ["KM2 as i64", None, "5", None, None]),
                      # unary operators other than minus, parentheses, casts, hex / octal / binary / suffixed literals
                      ("u8", ["2", None, "!0", "7", None]), ("i16", ["!10", None, None, "(300)", None]), ("u16", ["0x10", None, "0b1000_0000", "0o777", "40_000u16"]),
                      ("i32", ["-(3)", None, "7 as i32", None, "1 << 20"]),
                      # signed types whose discriminants span more than the positive half of the type
                      ("i8", ["-100", None, "100", None, None]), ("i16", ["-32768", None, None, "32766", None]), ("i64", ["-9223372036854775808", None, "0", None, "9223372036854775807"]),
                      ("isize", ["-5", None, None, "isize::MAX - 1", None])]:
        vs = base()
        for v, d in zip(vs, discs):
            v.disc = d
        e = E("Dsc%04d" % eid, "discriminants", ["EnumDiscriminants", "FromRepr"], vs, repr=rp, disc_attrs=[["derive(FromRepr, EnumIter)"]])
        out.append(e)
        eid += 1
    # the companion enum's own #[repr] requested through strum_discriminants(repr(..)) must not touch the source enum's FromRepr
    for drp in ["u8", "i16"]:
        vs = [V("Unit0"), V("Tup1", "tuple", [(None, "u8")]), V("Big2"), V("Last3")]
        out.append(E("Dsc%04d" % eid, "discriminants", ["EnumDiscriminants", "FromRepr"], vs, disc_attrs=[["repr(%s)" % drp], ["derive(FromRepr)"]]))
        eid += 1
    # several copied attributes of one kind on a variant: multi-line documentation, two pass-throughs
    vs = base()
    vs[0].docs = [" first line", " second line", "", " fourth line"]
    vs[1].raw_attrs = ["#[strum_discriminants(strum(message = \"m1\"))]", "#[strum_discriminants(strum(detailed_message = \"d1\", props(sides = \"4\")))]"]
    vs[2].docs = [" only line"]
    vs[2].mid_lines = ["#[allow(dead_code)]", "#[allow(unused)]"]
    out.append(E("Dsc%04d" % eid, "discriminants", ["EnumDiscriminants"], vs, disc_attrs=[["derive(EnumMessage, EnumProperty)"]]))
    eid += 1
    # unit-only enums whose literal discriminants are contiguous but not ascending / ascending with a gap / all implicit
    for k, (rp, discs) in enumerate([(None, ["2", "1", "0"]), ("u8", ["0x12", "0x10", None]), ("i8", ["-1", "-2", "-3"]), (None, ["0", "2", "1"]), ("u16", ["5", None, "4"])]):
        vs = [V("High"), V("Medium"), V("Low")]
        for v, d in zip(vs, discs):
            v.disc = d
        e = E("Dsc%04d" % eid, "discriminants", ["EnumDiscriminants", "FromRepr", "EnumIter", "IntoStaticStr", "AsRefStr", "EnumTable", "VariantArray"], vs, repr=rp, disc_attrs=[["derive(EnumIter, FromRepr)"]],
              std_derives=["Clone", "Copy", "Debug", "PartialEq"])
        out.append(e)
        eid += 1
    # reprs outside FromRepr's list, and several #[repr] attributes (the last integer one decides the discriminant type)
    for rp, pre, discs, ders in [("u128", [], ["1", None, "1 << 100", None, None], ["EnumDiscriminants"]), ("i128", [], ["-5", None, None, "7", None], ["EnumDiscriminants"]),
                                 ("u8", ["#[repr(align(4))]"], [None, "3", None, None, None], ["EnumDiscriminants", "FromRepr"]),
                                 ("i16", ["#[repr(align(8))]"], ["-2", None, None, None, "9"], ["EnumDiscriminants", "FromRepr"])]:
        vs = base()
        for v, d in zip(vs, discs):
            v.disc = d
        e = E("Dsc%04d" % eid, "discriminants", ders, vs, repr=rp, disc_attrs=[["derive(EnumIter)"]])
        e.pre_attrs = pre
        out.append(e)
        eid += 1
    return out


def family_try_as(start: int) -> List[E]:
    out = []
    eid = start
    vs = [V("Unit0"), V("One1", "tuple", [(None, "u8")]), V("Two2", "tuple", [(None, "u8"), (None, "Txt")]), V("Three3", "tuple", [(None, "i32"), (None, "u8"), (None, "Txt")]),
          V("Named4", "named", [("a", "u8")]), V("Empty5", "tuple", []), V("Off6", "tuple", [(None, "u8")], attrs=[["disabled"]]), V("Off6b", "tuple", [(None, "u8")], attrs=[["serialize = \"lzw\"", "disabled"]]),
          V("Off6c", "tuple", [(None, "u8"), (None, "i32")], attrs=[["disabled", "to_string = \"x\""]]), V("HTTPCode200", "tuple", [(None, "u8")]),
          V("ref_7", "tuple", [(None, "&'static str")])]
    out.append(E("Try%04d" % eid, "try_as", ["EnumTryAs", "EnumIs"], vs))
    eid += 1
    names = ["Foo2Bar", "X1", "Ab12Cd", "snake_9", "Version22", "A", "IOError", "Id3v2Tag", "Z_", "a1"]
    out.append(E("Try%04d" % eid, "try_as", ["EnumTryAs", "EnumIs"], [V(n, "tuple", [(None, "u8")]) if i % 2 else V(n) for i, n in enumerate(names)]))
    return out


def all_short_identifiers(maxlen: int = 5) -> List[str]:
    """Every valid identifier up to `maxlen` over {a, b, A, B, 1, _} (thorough tier)."""
    alpha = "abAB1_"
    out = []

    def rec(prefix: str):
        if prefix:
            if not prefix[0].isdigit() and prefix.strip("_") != "":
                out.append(prefix)
        if len(prefix) >= maxlen:
            return
        for c in alpha:
            rec(prefix + c)

    rec("")
    return out


def generate(tier: str, seed: int) -> List[E]:
    rng = random.Random(1000003 * seed + 17)
    es: List[E] = []
    es += family_strings(rng, 70 if tier == "quick" else 1000, 1)
    es += family_unit_strings(rng, 24 if tier == "quick" else 240, 1)
    # 300 variants: more than 256 *parseable* ones (23-odd of every 257 are disabled), so that one-byte indices wrap
    es += family_big(1, [33, 300] if tier == "quick" else [33, 64, 129, 257, 300, 600])
    es += family_err_combos(1)
    es += family_case_pairs(1)
    es += family_raw_idents(1)
    es += family_style_ci(1)
    es += family_overlap(1)
    es += family_placeholders(1)
    es += family_casing(rng, 1, IDENT_DICT, STYLES)
    es += family_iter(rng, 1, tier == "thorough")
    es += family_messages(rng, 1, 24 if tier == "quick" else 240)
    es += family_discriminants(rng, 1)
    es += family_try_as(1)
    es += family_idlen(1)
    es += family_snake_collisions(1)
    es += family_shared_values(1)
    es += family_names_edge(1)
    es += family_same_name(1)
    es += attribute_layout_twins(es)
    inject_foreign_attributes(es)
    if tier == "thorough":
        ids = all_short_identifiers(5)
        big = family_casing(rng, 5000, ids, [s for s in S.DOCUMENTED_STYLES], per_enum=24)
        for e in big:
            e.derives = ["VariantNames", "EnumString", "EnumIs"]
            e.only_std = True
        es += big
    return es


# ------------------------------------------------------------------------------------------------
# workspace construction and extraction
# ------------------------------------------------------------------------------------------------

CONFIGS = {
    # name -> (features enabled, strum dependency line, crate attributes)
    "std": {"features": ["std"], "no_std": False},
    "nostd": {"features": [], "no_std": True},
    "renamed": {"features": ["std", "renamed"], "no_std": False},
    "shadow": {"features": ["std", "shadow"], "no_std": False},
}

N_SHARDS = 12


def module_name(e: E) -> str:
    return (getattr(e, "module_override", None) or e.name.lower()) + ("_phf" if e.phf else "")


def write_if_changed(path: str, content: str):
    try:
        with open(path) as f:
            if f.read() == content:
                return
    except OSError:
        pass
    os.makedirs(os.path.dirname(path), exist_ok=True)
    with open(path, "w") as f:
        f.write(content)


def crate_for(e: E, cfg: str, idx: int) -> Optional[str]:
    if cfg == "std":
        return "c_std_%02d" % (idx % N_SHARDS)
    if e.std_only or e.phf or e.only_std:
        return None
    if cfg == "nostd":
        return "c_nostd_%d" % (idx % 4)
    if cfg == "renamed":
        return "c_renamed_%d" % (idx % 2)
    if cfg == "shadow":
        return "c_shadow_%d" % (idx % 2)
    return None


def build_workspace(root: str, es: List[E], configs: List[str], disabled: Dict[str, set]) -> Dict[str, List[str]]:
    """Write the cargo workspace. `disabled[crate]` = modules switched off after a compile failure.
    Returns crate -> list of modules."""
    crates: Dict[str, List[str]] = {}
    enums_dir = os.path.join(root, "enums")
    wanted_files = set()
    for idx, e in enumerate(es):
        e.module = module_name(e)
        p = os.path.join(enums_dir, e.module + ".rs")
        write_if_changed(p, e.render())
        wanted_files.add(e.module + ".rs")
        for cfg in configs:
            c = crate_for(e, cfg, idx)
            if c:
                crates.setdefault(c, []).append(e.module)
    if os.path.isdir(enums_dir):
        for fn in os.listdir(enums_dir):
            if fn not in wanted_files:
                os.remove(os.path.join(enums_dir, fn))
    members = sorted(crates)
    write_if_changed(os.path.join(root, "Cargo.toml"), "[workspace]\nresolver = \"2\"\nmembers = [%s]\n" % ", ".join('"%s"' % m for m in members))
    lock_src = os.path.join(common.REPO, "Cargo.lock")
    lock_dst = os.path.join(root, "Cargo.lock")
    if not os.path.exists(lock_dst) and os.path.exists(lock_src):
        shutil.copy(lock_src, lock_dst)
    for c in members:
        cfg = c.split("_")[1]
        conf = CONFIGS[cfg]
        feats = conf["features"]
        if cfg == "renamed":
            dep = 'strum_renamed = { package = "strum", path = "%s/strum", features = ["derive"] }' % common.REPO
        elif cfg == "nostd":
            dep = 'strum = { path = "%s/strum", default-features = false, features = ["derive"] }' % common.REPO
        else:
            dep = 'strum = { path = "%s/strum", features = ["derive", "phf"] }' % common.REPO
        toml = ("[package]\nname = \"%s\"\nversion = \"0.0.0\"\nedition = \"2021\"\n\n[lib]\npath = \"src/lib.rs\"\n\n[features]\ndefault = [%s]\nstd = []\nrenamed = []\nshadow = []\n\n[dependencies]\n%s\n"
                % (c, ", ".join('"%s"' % f for f in feats), dep))
        write_if_changed(os.path.join(root, c, "Cargo.toml"), toml)
        lib = []
        if conf["no_std"]:
            lib.append("#![no_std]")
        lib.append("#![allow(dead_code, unused_imports, deprecated, non_camel_case_types)]")
        if cfg == "renamed":
            lib.append("pub mod reexp { pub use ::strum_renamed; pub mod r#mod { pub mod r\u00e9export { pub use ::strum_renamed; } } }")
            strum_path = "crate::reexp::strum_renamed"
        else:
            strum_path = "::strum"
        lib.append("pub mod prelude {" + PRELUDE.replace("STRUM", strum_path) + "}")
        off = disabled.get(c, set())
        for m in crates[c]:
            if m in off:
                continue
            lib.append('#[path = "../../enums/%s.rs"] pub mod %s;' % (m, m))
        write_if_changed(os.path.join(root, c, "src", "lib.rs"), "\n".join(lib) + "\n")
    # remove stale crates
    for d in os.listdir(root):
        if d.startswith("c_") and d not in crates:
            shutil.rmtree(os.path.join(root, d), ignore_errors=True)
    return crates


class CompileFailure:
    def __init__(self, crate: str, module: str, message: str, code: Optional[str], rendered: str, derive: Optional[str] = None):
        self.crate = crate
        self.module = module
        self.message = message
        self.code = code
        self.rendered = rendered
        self.derive = derive       # strum derive whose expansion contains the error, if any


def diag_derive(d: dict) -> Optional[str]:
    """Name of the derive macro in whose expansion the diagnostic's primary span lies."""
    for sp in d.get("spans", []):
        ex = sp.get("expansion")
        guard = 0
        while ex and guard < 12:
            nm = ex.get("macro_decl_name") or ""
            m = re.match(r"#\[derive\((?:.*::)?([A-Za-z0-9_]+)\)\]", nm)
            if m:
                return m.group(1)
            ex = (ex.get("span") or {}).get("expansion")
            guard += 1
    m = re.search(r"originates in the derive macro `(?:.*::)?([A-Za-z0-9_]+)`", d.get("rendered") or "")
    return m.group(1) if m else None


def attribute_by_split(root: str, by_mod: Dict[str, "E"], failures: List["CompileFailure"]) -> List["CompileFailure"]:
    """A compile failure whose spans carry no expansion information (tokens of the generated code that keep the user's
    spans, e.g. an impl header without its where clause) cannot be attributed to a derive from the diagnostic. The enum is
    then compiled once per strum derive, alone, in a side crate; the derives whose copy fails own the failure."""
    todo = [f for f in failures if f.derive is None and f.crate.startswith("c_std_") and f.module in by_mod]
    if not todo:
        return failures
    import copy as _copy
    import subprocess
    side = os.path.join(root, "split")
    shutil.rmtree(side, ignore_errors=True)
    os.makedirs(os.path.join(side, "src"))
    lib = ["#![allow(dead_code, unused_imports, deprecated, non_camel_case_types)]", "pub mod prelude {" + PRELUDE.replace("STRUM", "::strum") + "}"]
    names = {}
    single = {}
    for f in todo:
        e = by_mod[f.module]
        ds = [d for d in e.derives if d in STRUM_DERIVES]
        if len(ds) == 1:
            single[f.module] = ds[0]
            continue
        for d in ds:
            e2 = _copy.copy(e)
            e2.derives = [d]
            mod = "%s__%s" % (f.module, d.lower())
            names[mod] = (f.module, d)
            with open(os.path.join(side, "src", mod + ".rs"), "w") as fh:
                fh.write(e2.render())
            lib.append("pub mod %s;" % mod)
    out = []
    failing: Dict[str, set] = {}
    if names:
        with open(os.path.join(side, "src", "lib.rs"), "w") as fh:
            fh.write("\n".join(lib) + "\n")
        with open(os.path.join(side, "Cargo.toml"), "w") as fh:
            fh.write("[package]\nname = \"c_split\"\nversion = \"0.0.0\"\nedition = \"2021\"\n\n[features]\ndefault = [\"std\"]\nstd = []\nrenamed = []\nshadow = []\n\n"
                     "[dependencies]\nstrum = { path = \"%s/strum\", features = [\"derive\", \"phf\"] }\n\n[workspace]\n" % common.REPO)
        lock_src = os.path.join(common.REPO, "Cargo.lock")
        if os.path.exists(lock_src):
            shutil.copy(lock_src, os.path.join(side, "Cargo.lock"))
        env = common.cargo_env({"CARGO_TARGET_DIR": os.path.join(root, "target_split")})
        r = subprocess.run(["cargo", "+nightly", "check", "--offline", "--message-format=json"], cwd=side, env=env, stdout=subprocess.PIPE, stderr=subprocess.PIPE, text=True)
        for line in r.stdout.splitlines():
            try:
                d = json.loads(line)
            except ValueError:
                continue
            m = d.get("message") if d.get("reason") == "compiler-message" else None
            if not m or m.get("level") != "error":
                continue
            for sp in m.get("spans", []):
                chain = sp
                guard = 0
                while chain and guard < 12:
                    mm = re.search(r"src/([a-z0-9_]+__[a-z0-9_]+)\.rs$", chain.get("file_name", ""))
                    if mm and mm.group(1) in names:
                        orig, d_ = names[mm.group(1)]
                        failing.setdefault(orig, set()).add(d_)
                    chain = (chain.get("expansion") or {}).get("span")
                    guard += 1
        shutil.rmtree(os.path.join(root, "target_split"), ignore_errors=True)
    for f in failures:
        if f in todo and f.module in single:
            f.derive = single[f.module]
            out.append(f)
        elif f in todo and failing.get(f.module):
            for d_ in sorted(failing[f.module]):
                out.append(CompileFailure(f.crate, f.module, f.message, f.code, f.rendered, d_))
        else:
            out.append(f)
    return out


_LAST: Dict[str, object] = {}


def extract(tier: str, seed: int, configs: Optional[List[str]] = None, need=None) -> List[dict]:
    """Generate, compile with the driver and load the facts of the witness corpus.

    Compile failures of individual enum modules are recorded (see `failures()`), the modules switched off
    and extraction repeated (at most three rounds)."""
    configs = configs or ["std", "nostd", "renamed", "shadow"]
    es = generate(tier, seed)
    key = hashlib.sha256(("%s|%s|%s|%s|%s" % (common.REPO, common.driver_hash(), tier, seed if tier == "thorough" else seed, GEN_VERSION)).encode()).hexdigest()[:10]
    root = os.path.join(common.WORK, "corpus-%s-%s" % (tier, key))
    with common.Lock("corpus-%s-%s" % (tier, key)):
        os.makedirs(root, exist_ok=True)
        disabled: Dict[str, set] = {}
        failures: List[CompileFailure] = []
        target = os.path.join(root, "target")
        facts = os.path.join(root, "facts")
        stems: List[str] = []
        for rnd in range(4):
            crates = build_workspace(root, es, configs, disabled)
            rc, stems, diags = common.run_cargo_with_driver(root, target, facts, ["--workspace"], [root + "/"], keep_going=True)
            errs = [d for d in diags if d.get("level") == "error" and d.get("message") and not d["message"].startswith("aborting due to")]
            if rc == 0:
                break
            new = 0
            for d in errs:
                mod, crate = None, None
                for sp in d.get("spans", []):
                    fn = sp.get("file_name", "")
                    m = re.search(r"enums/([a-z0-9_]+)\.rs$", fn)
                    if m and (sp.get("is_primary") or mod is None):
                        mod = m.group(1)
                # expansion spans may point into the macro; walk expansions
                if mod is None:
                    for sp in d.get("spans", []):
                        ex = sp.get("expansion")
                        while ex and mod is None:
                            fn = (ex.get("span") or {}).get("file_name", "")
                            m = re.search(r"enums/([a-z0-9_]+)\.rs$", fn)
                            if m:
                                mod = m.group(1)
                            ex = (ex.get("span") or {}).get("expansion")
                pk = d.get("_package", "")
                m2 = re.search(r"(c_[a-z]+_\d+)", pk)
                crate = m2.group(1) if m2 else None
                if mod is None or crate is None:
                    if d.get("message", "").startswith("cargo failed") or mod is None:
                        # cannot attribute: tool error unless something else was attributed in this round
                        continue
                if mod in disabled.get(crate, set()):
                    continue
                disabled.setdefault(crate, set()).add(mod)
                failures.append(CompileFailure(crate, mod, d.get("message", ""), (d.get("code") or {}).get("code") if d.get("code") else None, d.get("rendered", ""), diag_derive(d)))
                new += 1
            if new == 0:
                msgs = "\n".join((d.get("rendered") or d.get("message") or "")[:600] for d in errs[:5])
                raise common.ToolError("the witness corpus does not build and the failure cannot be attributed to an enum module:\n" + msgs)
        else:
            raise common.ToolError("the witness corpus still fails to build after three attribution rounds")
        units = []
        for s in stems:
            p = os.path.join(facts, s + ".json")
            if not os.path.exists(p):
                # warm target dir with a missing fact file: force
                common.wipe_member_fingerprints(target, [s.rsplit("-", 1)[0]])
                rc, stems2, _d = common.run_cargo_with_driver(root, target, facts, ["--workspace"], [root + "/"], keep_going=True)
                if not os.path.exists(p):
                    raise common.ToolError("fact file missing for corpus crate " + s)
            u = common.load_unit(facts, s, need)
            u["_stem"] = s
            u["_origin"] = "corpus"
            u["_config"] = u["crate"].split("_")[1] if u["crate"].startswith("c_") else "?"
            units.append(u)
        by_mod = {module_name(e): e for e in es}
        failures = attribute_by_split(root, by_mod, failures)
        _LAST["failures"] = failures
        _LAST["enums"] = es
        _LAST["by_mod"] = by_mod
        _LAST["root"] = root
        _LAST["crates"] = crates
        common.touch_used(root)
        common.gc_work([root])
        expected = len(set(crates))
        if len(units) < expected:
            raise common.ToolError("only %d of %d corpus crates produced facts" % (len(units), expected))
        return units


def failures() -> List[CompileFailure]:
    return list(_LAST.get("failures", []))


def enum_by_module(mod: str) -> Optional[E]:
    return (_LAST.get("by_mod") or {}).get(mod)
