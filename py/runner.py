"""Dispatch: gathers facts (repository workspace + witness corpus), runs the validators of one property,
writes evidence and prints the verdict."""
from __future__ import annotations
import json
import os
import time
from typing import List

import common
import model

ALL = ["C%02d" % i for i in range(1, 21)]

LEVEL = {p: "translation_validation" for p in ALL}
LEVEL["C05"] = "proof"
LEVEL["C19"] = "other"
LEVEL["C20"] = "other"

COMMON_ASSUMPTIONS = [
    "rustc's front end (expansion, name resolution, type check, const evaluation) is the trusted extractor of facts",
    "translation validation covers the enum definitions listed under coverage.programs (repository test crates + generated witness corpus), not all programs",
]


NEED = {
    "C01": ["EnumString"], "C12": ["EnumString"], "C18": ["EnumString"], "C16": ["EnumString"],
    "C02": ["EnumString", "Display", "AsRefStr", "IntoStaticStr", "EnumMessage"],
    "C03": ["Display", "AsRefStr", "AsStaticStr", "IntoStaticStr", "ToString", "VariantNames", "EnumVariantNames"],
    "C11": ["EnumString", "Display", "AsRefStr", "AsStaticStr", "IntoStaticStr", "ToString", "VariantNames", "EnumVariantNames"],
    "C17": ["Display"],
    "C04": ["EnumIter", "EnumCount"], "C08": ["EnumIter", "EnumCount", "VariantNames", "EnumVariantNames", "VariantArray"],
    "C06": ["FromRepr"], "C10": ["EnumTable"], "C13": ["EnumIs", "EnumTryAs"], "C14": ["EnumMessage"], "C15": ["EnumProperty"],
    "C05": ["EnumIter"],
}


def gather(tier: str, seed: int, no_corpus: bool = False, need=None):
    units = common.extract_repo(need)
    if not no_corpus:
        try:
            import corpus
        except ImportError:
            corpus = None
        if corpus is not None:
            units = units + corpus.extract(tier, seed, need=need)
    infos = model.dedup(model.build(units))
    return units, infos


def run(prop: str, tier: str, seed: int, t0: float, replay=None, no_corpus=False) -> int:
    import props_strings
    registry = {}
    for mod in (props_strings,):
        for name in dir(mod):
            if name in ALL:
                registry[name] = getattr(mod, name)
    for modname in ("props_tables", "props_iter", "props_gen"):
        try:
            mod = __import__(modname)
        except ImportError:
            continue
        for name in dir(mod):
            if name in ALL:
                registry[name] = getattr(mod, name)
    if prop not in registry:
        raise common.ToolError("no check registered for " + prop)
    units, infos = gather(tier, seed, no_corpus, need=NEED.get(prop))
    ctx = {"tier": tier, "seed": seed, "units": units, "replay": replay}
    if replay:
        with open(replay) as f:
            ctx["replay_data"] = json.load(f)
    violations, cov = registry[prop](infos, ctx)
    extra = {}
    assumptions = COMMON_ASSUMPTIONS + cov.pop("assumptions", [])
    return common.report(prop, tier, seed, LEVEL[prop], cov, assumptions, violations, t0, extra)
