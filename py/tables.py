"""Recognisers that turn the generated items of one derive into semantic tables."""
from __future__ import annotations
from dataclasses import dataclass, field
from typing import Any, Dict, List, Optional, Tuple
import shapes as H
from shapes import Unrecognised
from model import DeriveGroup, EnumInfo, fn_of, assoc_of

EQ_ICASE = "core::str::<impl str>::eq_ignore_ascii_case"
OK = "core::result::Result::Ok"
ERR = "core::result::Result::Err"
SOME = "core::option::Option::Some"
NONE = "core::option::Option::None"
INTO = "core::convert::Into::into"
FROM_STR = "core::str::traits::FromStr::from_str"
DISPLAY_FMT = "core::fmt::Display::fmt"


def payload_desc(c: H.Ctor) -> List[Tuple[Optional[str], Any]]:
    out = []
    for name, e in c.payload:
        if H.is_default_call(e):
            out.append((name, "default"))
            continue
        co = H.call_of(e)
        if co and not co[1] and co[0].get("dk") in ("Fn", "AssocFn"):
            out.append((name, ("fn", co[0].get("def"), co[0].get("written"))))
            continue
        out.append((name, ("other", H.brief(e))))
    return out


# ------------------------------------------------------------------------------------------------
# EnumString
# ------------------------------------------------------------------------------------------------

@dataclass
class ParseArm:
    lit: str
    mode: str                 # exact | ci
    ctor: H.Ctor
    node: Any


@dataclass
class FallThrough:
    kind: str                 # default | notfound | custom | other
    variant: Optional[str] = None
    field_name: Optional[str] = None
    fn_def: Optional[str] = None
    fn_written: Optional[str] = None
    err_path: Optional[dict] = None
    arg_ok: bool = False      # the argument is the untouched parameter s (through Into::into for default)
    node: Any = None


@dataclass
class ParseTable:
    impl: dict
    err_ty: dict
    arms: List[ParseArm]
    ft: FallThrough
    phf_entries: Optional[List[Tuple[str, H.Ctor]]]
    phf_static_ty: Optional[dict]
    scrutinee_ok: bool
    try_from: Optional[dict]           # {'delegates': bool, 'error_ty': dict, 'impl': dict}
    all_nodes: Any = None
    # set by the decision-tree normaliser (symeval): inputs on which the function differs from the table above
    irregular: List[dict] = field(default_factory=list)
    via: str = "shape"                 # shape | tree


def _fall_through(e: Any) -> FallThrough:
    e = H.strip(e)
    co = H.call_of(e)
    if co is None:
        return FallThrough("other", node=e)
    f, args = co
    if f.get("def") == ERR and len(args) == 1:
        a = H.strip(args[0])
        if isinstance(a, dict) and a.get("k") == "path" and a.get("variant") == "VariantNotFound":
            return FallThrough("notfound", err_path=a, node=e)
        ci = H.call_of(a)
        if ci and len(ci[1]) == 1 and not ci[0].get("method"):
            return FallThrough("custom", fn_def=ci[0].get("def"), fn_written=ci[0].get("written"), arg_ok=H.is_local(ci[1][0], param=0), node=e)
        return FallThrough("other", node=e)
    if f.get("def") == OK and len(args) == 1:
        c = H.ctor_of(args[0])
        if c and len(c.payload) == 1:
            name, pe = c.payload[0]
            into = H.call_of(pe)
            ok = bool(into and into[0].get("def") == INTO and len(into[1]) == 1 and H.is_local(into[1][0], param=0))
            return FallThrough("default", variant=c.variant, field_name=name, arg_ok=ok, node=e)
    return FallThrough("other", node=e)


def _phf_prelude(stmts: List[dict]) -> Tuple[Optional[List[Tuple[str, H.Ctor]]], Optional[dict]]:
    """Recognise `use ..; static PHF: Map = Map{entries: &[(k, C)..]}; if let Some(v) = PHF.get(s).cloned() {return Ok(v)}`."""
    if not stmts:
        return None, None
    entries = None
    static_ty = None
    static_name = None
    seen_if = False
    for s in stmts:
        k = s.get("k")
        if k == "item" and s.get("item") == "use":
            continue
        if k == "item" and s.get("item") == "static" and entries is None:
            static_name = s.get("name")
            static_ty = s.get("ty_sem")
            body = H.strip(s["body"]["tree"])
            if not (static_ty and str(static_ty.get("adt", "")).startswith("phf::")):
                raise Unrecognised("static in from_str is not a phf map", s)
            ent = None
            if isinstance(body, dict) and body.get("k") == "struct":
                for fname, fe in body["fields"]:
                    if fname == "entries":
                        ent = H.strip(fe)
            if ent is None:
                raise Unrecognised("phf map literal without entries", body)
            if ent.get("k") == "ref":
                ent = H.strip(ent["e"])
            if ent.get("k") != "array":
                raise Unrecognised("phf entries is not an array", ent)
            entries = []
            for el in ent["elems"]:
                el = H.strip(el)
                if el.get("k") != "tup" or len(el["elems"]) != 2:
                    raise Unrecognised("phf entry is not a pair", el)
                key = H.lit_value(el["elems"][0], "str")
                c = H.ctor_of(el["elems"][1])
                if key is None or c is None:
                    raise Unrecognised("phf entry is not (literal, constructor)", el)
                entries.append((key, c))
            continue
        if k in ("semi", "expr_stmt") and entries is not None and not seen_if:
            e = H.strip(s["e"])
            if e.get("k") == "if" and e.get("else") is None:
                c = H.strip(e["cond"])
                if c.get("k") == "let_expr":
                    p = c["pat"]
                    if p.get("k") == "ptuple_struct" and p["path"].get("def") == SOME and len(p["pats"]) == 1:
                        b = H.binding(p["pats"][0])
                        init = H.strip(c["init"])
                        # PHF.get(s).cloned()
                        ok = False
                        if b and init.get("k") == "mcall" and init["name"] in ("cloned", "copied") and str(init.get("def", "")).startswith("core::option::Option"):
                            g = H.strip(init["recv"])
                            if g.get("k") == "mcall" and g["name"] == "get" and str(g.get("def", "")).startswith("phf::") and len(g["args"]) == 1 and H.is_local(g["args"][0], param=0):
                                r = H.strip(g["recv"])
                                if r.get("k") == "path" and r.get("dk", "").startswith("Static") and (r.get("written") or "").split("::")[-1] == static_name:
                                    ok = True
                        if ok:
                            # then-branch: return Ok(value)
                            _st, t = H.tail_of_body(e["then"])
                            cand = t
                            if cand is None and _st:
                                cand = None
                            ret_ok = False
                            for n in H.walk(e["then"]):
                                if n.get("k") == "ret":
                                    co = H.call_of(n.get("e"))
                                    if co and co[0].get("def") == OK and len(co[1]) == 1 and H.is_local(co[1][0], binding_id=b["id"]):
                                        ret_ok = True
                            if ret_ok:
                                seen_if = True
                                continue
            raise Unrecognised("unexpected statement before the match in from_str", s)
        raise Unrecognised("unexpected statement in from_str", s)
    if entries is not None and not seen_if:
        raise Unrecognised("phf map is built but never consulted", stmts)
    return entries, static_ty


def group_fns(g: DeriveGroup, info: Optional[EnumInfo] = None) -> Dict[str, dict]:
    """def path -> fn record of every fn generated by the derive (helpers the normaliser may inline); under the reserved keys
    `__discs__` / `__items__` the enum's discriminants (rustc's) and the const / static items the derive generated."""
    out = {}
    items = {}
    for it in g.items:
        if it.get("item") in ("const", "static") and it.get("name") and it.get("body"):
            items[it["name"]] = it
    if items:
        out["__items__"] = items
    if info is not None:
        out["__adt__"] = info.def_path
    if info is not None and info.sem:
        discs = {}
        for v in info.sem.get("variants", []):
            try:
                discs[v["name"]] = int(v["disc"])
            except (KeyError, TypeError, ValueError):
                pass
        if discs:
            out["__discs__"] = discs
    for it in g.items:
        if it.get("item") == "impl":
            for a in it.get("assoc", []):
                if a.get("kind") == "fn" and a.get("def") and a.get("body"):
                    out[a["def"]] = a
        elif it.get("item") == "fn" and it.get("def") and it.get("body"):
            out[it["def"]] = it      # free helper fn of the derive
    return out


def parse_table(info: EnumInfo, g: DeriveGroup) -> ParseTable:
    try:
        return parse_table_shape(info, g)
    except Unrecognised as e1:
        try:
            return parse_table_tree(info, g)
        except Unrecognised as e2:
            raise Unrecognised("%s [decision-tree normaliser: %s]" % (e1, e2), getattr(e1, "node", None))


def _try_from(g: DeriveGroup, fns: Optional[Dict[str, dict]] = None) -> Optional[dict]:
    tfi = g.impls("core::convert::TryFrom")
    if not tfi:
        return None
    ti = tfi[0]
    tfn = fn_of(ti, "try_from")
    te = assoc_of(ti, "Error", "type")
    delegates = False
    if tfn:
        _s, t = H.tail_of_body(tfn["body"]["tree"])
        co = H.call_of(t)
        if co and not _s and len(co[1]) == 1 and H.is_local(co[1][0], param=0):
            if co[0].get("def") == FROM_STR or (co[0].get("method") and co[0].get("def") == "core::str::<impl str>::parse"):
                delegates = True
    return {"delegates": delegates, "error_ty": te["ty"] if te else None, "impl": ti, "n": len(tfi),
            "arg_ty": (ti["trait"]["args"][0]["s"] if ti["trait"]["args"] else None)}


def classify_parse_leaf(leaf) -> Tuple[str, Any]:
    """('variant', Ctor) | ('ft', FallThrough) | ('diverge', reason) | ('effect', text)"""
    if leaf.diverge:
        return ("diverge", leaf.diverge)
    un = leaf.unused_effects()
    if un:
        return ("effect", "evaluates %s and discards it, then returns %s" % (H.brief(un[0], 60), H.brief(leaf.value, 60)))
    v = leaf.value
    ft = _fall_through(v)
    if ft.kind == "default" and not ft.arg_ok and not any(n.get("k") == "local" and n.get("param") == 0 for n in H.walk(v)):
        ft = FallThrough("other", node=v)       # a constructor with one (defaulted) field, not the catch-all
    if ft.kind != "other":
        return ("ft", ft)
    co = H.call_of(v)
    if co and co[0].get("def") == OK and len(co[1]) == 1:
        c = H.ctor_of(co[1][0])
        if c is not None:
            return ("variant", c)
    return ("ft", ft)


def _outcome_key(o: Tuple[str, Any]):
    if o[0] == "variant":
        return ("variant", o[1].adt, o[1].variant)
    if o[0] == "ft":
        f = o[1]
        return ("ft", f.kind, f.variant, f.field_name, f.fn_def, f.arg_ok)
    return o


def parse_table_tree(info: EnumInfo, g: DeriveGroup) -> ParseTable:
    """from_str of any shape the normaliser understands -> the equivalent (spelling, mode, constructor) table, plus the
    inputs (one per cell of the atom partition) on which the function and that table differ."""
    import symeval as SE
    impls = g.impls("core::str::traits::FromStr")
    if len(impls) != 1:
        raise Unrecognised("expected exactly one FromStr impl, found %d" % len(impls))
    imp = impls[0]
    f = fn_of(imp, "from_str")
    err = assoc_of(imp, "Err", "type")
    if f is None or err is None:
        raise Unrecognised("FromStr impl lacks from_str / Err")
    fns = group_fns(g, info)
    fns.pop(f.get("def"), None)
    b = SE.Builder(f, {0: "str"}, fns)
    tree = b.tree()
    ordered = []
    for a in b.atoms_in_source_order():
        if a[0] in ("seq", "sci"):
            ordered.append(a)
        elif a[0] == "scisuf":
            ordered.append(("sci", a[1] + a[2], a))
    lens = [a for a in SE.atoms(tree) if a[0] == "slen"]
    arms: List[ParseArm] = []
    phf_entries: Optional[List[Tuple[str, H.Ctor]]] = [] if b.phf_keys else None
    for a in ordered:
        lit = a[1]
        if len(a) == 3:
            # prefix compared exactly, rest ignoring case: not expressible as one table arm unless the prefix has no letters
            if any(c.isascii() and c.isalpha() for c in a[2][1]):
                raise Unrecognised("arm compares a prefix exactly and the rest ignoring case")
            a = a[2]

        def truth(x, a=a, lit=lit):
            if x == a:
                return True
            if x[0] in ("seq", "sci", "scisuf"):
                # a suffix comparison that amounts to this very literal counts as the arm itself
                if x[0] == "scisuf" and a[0] == "sci" and x[1] + x[2] == lit:
                    return True
                return False
            # pre-checks (length, first byte, prefix) are evaluated on the arm's own literal: the arm is what the literal reaches
            return SE.holds(x, {"s": lit})
        o = classify_parse_leaf(SE.run_with(tree, truth))
        if o[0] != "variant":
            continue        # an atom that only guards a fall-through (the comparison below still covers it)
        if a[0] == "seq" and lit in b.phf_keys and not any(k == lit for k, _c in (phf_entries or [])):
            phf_entries.append((lit, o[1]))
        else:
            arms.append(ParseArm(lit, "exact" if a[0] == "seq" else "ci", o[1], {"body": o[1].node, "normalised": True}))
    reps = SE.string_reps(SE.atoms(tree))
    outcomes = [(kind, s, classify_parse_leaf(SE.run(tree, {"s": s}))) for kind, s in reps]
    # arms that can accept the same input (one ASCII-fold class) are ordered so that first-match semantics reproduces the
    # function: a dispatch on length / first byte lists them bucket by bucket, which need not be their order of precedence
    import itertools
    by_class: Dict[str, List[ParseArm]] = {}
    for a_ in arms:
        by_class.setdefault(SE.ascii_fold(a_.lit), []).append(a_)
    want_of = {s_: o_ for _k, s_, o_ in outcomes}
    reordered: Dict[int, List[ParseArm]] = {}
    for fc, group in by_class.items():
        if len(group) < 2 or len(group) > 6:
            continue
        probe = [s_ for s_ in want_of if SE.ascii_fold(s_) == fc and not any(k_ == s_ for k_, _c in (phf_entries or []))]

        def first_match(order, s_):
            for a_ in order:
                if (a_.mode == "exact" and a_.lit == s_) or (a_.mode == "ci" and SE.ascii_fold(a_.lit) == SE.ascii_fold(s_)):
                    return ("variant", a_.ctor.adt, a_.ctor.variant)
            return None
        for perm in itertools.permutations(group):
            if all((first_match(perm, s_) or _outcome_key(want_of[s_])) == _outcome_key(want_of[s_]) for s_ in probe):
                if list(perm) != group:
                    reordered[id(group[0])] = list(perm)
                break
    if reordered:
        new_arms: List[ParseArm] = []
        done = set()
        for a_ in arms:
            fc = SE.ascii_fold(a_.lit)
            if fc in done:
                continue
            group = by_class[fc]
            if id(group[0]) in reordered:
                new_arms += reordered[id(group[0])]
                done.add(fc)
            else:
                new_arms.append(a_)
        arms = new_arms
    # the fall-through: what the strings that match nothing get (majority; the others are irregular)
    fts: Dict[Any, list] = {}
    for kind, s, o in outcomes:
        if kind.startswith("nomatch"):
            fts.setdefault(_outcome_key(o), []).append(o)
    if not fts:
        raise Unrecognised("no non-matching representative")
    best = max(fts.values(), key=len)[0]
    if best[0] == "ft":
        ft = best[1]
    else:
        ft = FallThrough("other", node=(best[1].node if best[0] == "variant" else {"k": "lit", "ty": "str", "v": "<%s>" % (best[1],)}))
    pt = ParseTable(imp, err["ty"], arms, ft, phf_entries, None, True, _try_from(g), f["body"]["tree"], [], "tree")
    # the function == the table on every representative?
    for kind, s, o in outcomes:
        want: Tuple[str, Any] = ("ft", ft)
        hit = None
        if phf_entries:
            for k, c in phf_entries:
                if k == s:
                    hit = c
                    break
        if hit is None:
            for a_ in arms:
                if (a_.mode == "exact" and a_.lit == s) or (a_.mode == "ci" and SE.ascii_fold(a_.lit) == SE.ascii_fold(s)):
                    hit = a_.ctor
                    break
        if hit is not None:
            want = ("variant", hit)
        if _outcome_key(want) != _outcome_key(o):
            pt.irregular.append({"input": s, "class": kind, "function": _describe(o), "table": _describe(want), "expected_kind": want[0] if want[0] == "variant" else want[1].kind,
                                 "got_kind": o[0] if o[0] != "ft" else o[1].kind})
    return pt


def _describe(o) -> str:
    if o[0] == "variant":
        return "Ok(%s)" % o[1].variant
    if o[0] == "ft":
        return {"default": "the default variant", "notfound": "Err(VariantNotFound)", "custom": "Err(custom)", "other": "something else"}.get(o[1].kind, o[1].kind) + \
            ("" if o[1].kind != "other" else ": " + H.brief(o[1].node, 80))
    return "%s (%s)" % (o[0], o[1])


def parse_table_shape(info: EnumInfo, g: DeriveGroup) -> ParseTable:
    impls = g.impls("core::str::traits::FromStr")
    if len(impls) != 1:
        raise Unrecognised("expected exactly one FromStr impl, found %d" % len(impls))
    imp = impls[0]
    f = fn_of(imp, "from_str")
    err = assoc_of(imp, "Err", "type")
    if f is None or err is None:
        raise Unrecognised("FromStr impl lacks from_str / Err")
    stmts, tail = H.tail_of_body(f["body"]["tree"])
    entries, static_ty = _phf_prelude(stmts)
    arms: List[ParseArm] = []
    scrut_ok = True
    tail = H.strip(tail)
    m = None
    wrapped_ok = False
    co = H.call_of(tail)
    if co and co[0].get("def") == OK and len(co[1]) == 1 and H.match_on(co[1][0]):
        m = H.match_on(co[1][0])
        wrapped_ok = True
    elif H.match_on(tail):
        m = H.match_on(tail)
    if m is None:
        ft = _fall_through(tail)
        if ft.kind == "other":
            # not the bare fall-through of an enum without arms: leave the expression to the decision-tree normaliser
            raise Unrecognised("body of from_str is neither a match on the input nor a fall-through expression", tail)
    else:
        scrut_ok = H.is_local(m["scrut"], param=0)
        ft = None
        for arm in m["arms"]:
            p = arm["pat"]
            if H.is_wild(p) and arm.get("guard") is None:
                body = H.strip(arm["body"])
                if wrapped_ok:
                    if not (isinstance(body, dict) and body.get("k") == "ret"):
                        raise Unrecognised("wildcard arm of from_str does not return", arm)
                    ft = _fall_through(body.get("e"))
                else:
                    if isinstance(body, dict) and body.get("k") == "ret":
                        body = body.get("e")
                    ft = _fall_through(body)
                break
            body = arm["body"]
            if not wrapped_ok:
                co2 = H.call_of(body)
                if not (co2 and co2[0].get("def") == OK and len(co2[1]) == 1):
                    raise Unrecognised("arm of from_str is not Ok(..)", arm)
                body = co2[1][0]
            c = H.ctor_of(body)
            if c is None:
                raise Unrecognised("arm of from_str does not construct a variant", arm)
            if p.get("k") == "plit" and arm.get("guard") is None:
                v = H.lit_value(p["lit"], "str")
                if v is None:
                    raise Unrecognised("non-string literal pattern in from_str", arm)
                arms.append(ParseArm(v, "exact", c, arm))
                continue
            b = H.binding(p)
            if b is not None and arm.get("guard") is not None:
                gd = H.strip(arm["guard"])
                lit = None
                if gd.get("k") == "mcall" and gd.get("def") == EQ_ICASE and len(gd["args"]) == 1:
                    if H.is_local(gd["recv"], binding_id=b["id"]) and H.is_str_lit(gd["args"][0]):
                        lit = H.lit_value(gd["args"][0], "str")
                    elif H.is_local(gd["args"][0], binding_id=b["id"]) and H.is_str_lit(gd["recv"]):
                        lit = H.lit_value(gd["recv"], "str")
                if lit is None:
                    raise Unrecognised("guard of from_str arm is not <input>.eq_ignore_ascii_case(<literal>): " + H.brief(gd), arm)
                arms.append(ParseArm(lit, "ci", c, arm))
                continue
            raise Unrecognised("unrecognised arm pattern in from_str: " + H.render_pat(p), arm)
        if ft is None:
            raise Unrecognised("from_str match has no wildcard arm", m)
    # TryFrom
    tf = None
    tfi = g.impls("core::convert::TryFrom")
    if tfi:
        ti = tfi[0]
        tfn = fn_of(ti, "try_from")
        te = assoc_of(ti, "Error", "type")
        delegates = False
        if tfn:
            _s, t = H.tail_of_body(tfn["body"]["tree"])
            co = H.call_of(t)
            if co and not _s and len(co[1]) == 1 and H.is_local(co[1][0], param=0):
                if co[0].get("def") == FROM_STR or (co[0].get("method") and co[0].get("def") == "core::str::<impl str>::parse"):
                    delegates = True
        tf = {"delegates": delegates, "error_ty": te["ty"] if te else None, "impl": ti, "n": len(tfi),
              "arg_ty": (ti["trait"]["args"][0]["s"] if ti["trait"]["args"] else None)}
    return ParseTable(imp, err["ty"], arms, ft, entries, static_ty, scrut_ok, tf, f["body"]["tree"])


# ------------------------------------------------------------------------------------------------
# name tables: Display / AsRefStr / AsStaticStr / IntoStaticStr / ToString
# ------------------------------------------------------------------------------------------------

@dataclass
class NameArm:
    variant: str
    kind: str                  # lit | forward | fmt | other | panic
    lit: Optional[str] = None
    vpat: Optional[H.VPat] = None
    callee: Optional[str] = None       # resolved def of the wrapping call (Display::fmt, AsRef::as_ref, From::from, String::from ...)
    callee_targs: Optional[List[str]] = None
    fwd_binding: Optional[dict] = None # binding forwarded (transparent/default)
    formatter_ok: Optional[bool] = None
    fmt: Optional[dict] = None         # format_args facts
    fmt_macro: Optional[str] = None    # format_args | format
    node: Any = None


@dataclass
class NameTable:
    impl: dict
    fn_name: str
    arms: List[NameArm]
    has_panic_wild: bool
    scrut_ok: bool
    delegated_to: Optional[str] = None


def _bindings_of(vp: H.VPat) -> Dict[int, Tuple[Any, dict]]:
    """binding id -> (field key, binding)"""
    out = {}
    if vp.shape == "tuple":
        for i, sp in enumerate(vp.subs):
            b = H.binding(sp)
            if b:
                out[b["id"]] = (i, b)
    elif vp.shape == "named":
        for name, sp in vp.subs:
            b = H.binding(sp)
            if b:
                out[b["id"]] = (name, b)
    return out


def name_table(imp: dict, fn_name: str, wrap_defs: Tuple[str, ...], self_param: int = 0, fmt_param: Optional[int] = None,
               siblings: Optional[Dict[str, dict]] = None, fns: Optional[Dict[str, dict]] = None) -> NameTable:
    try:
        return name_table_shape(imp, fn_name, wrap_defs, self_param, fmt_param, siblings)
    except Unrecognised as e1:
        try:
            return name_table_tree(imp, fn_name, wrap_defs, self_param, fmt_param, fns)
        except Unrecognised as e2:
            raise Unrecognised("%s [decision-tree normaliser: %s]" % (e1, e2), getattr(e1, "node", None))


def _variant_tree(f: dict, self_param: int, fns: Optional[Dict[str, dict]]):
    """Decision tree of a function of `self` only: (builder, tree, [variant names in source order])."""
    import symeval as SE
    fns2 = dict(fns or {})
    fns2.pop(f.get("def"), None)
    b = SE.Builder(f, {self_param: "self"}, fns2)
    tree = b.tree()
    ats = b.atoms_in_source_order()
    bad = [a for a in SE.atoms(tree) if a[0] != "var"]
    if bad:
        raise Unrecognised("%s branches on something other than the variant of self: %r" % (f["name"], bad[0]))
    return b, tree, [a[1] for a in ats if a[0] == "var"]


def _vpat_for(leaf, variant: str) -> H.VPat:
    for vp in reversed(leaf.vpats):
        if vp.variant == variant:
            return vp
    raise Unrecognised("no pattern for variant %s on the path to its result" % variant)


def name_table_tree(imp: dict, fn_name: str, wrap_defs, self_param, fmt_param, fns) -> NameTable:
    import symeval as SE
    f = fn_of(imp, fn_name)
    if f is None:
        raise Unrecognised("impl lacks fn " + fn_name)
    b, tree, variants = _variant_tree(f, self_param, fns)
    arms: List[NameArm] = []
    for vn in variants:
        leaf = SE.run(tree, {"variant": vn})
        vp = _vpat_for(leaf, vn)
        body = leaf.value if leaf.value is not None else {"k": "macro", "name": "panic", "never": True, "e": None}
        arms.append(_name_arm(vp, body, wrap_defs, fmt_param, {"pat": vp.node, "body": body, "normalised": True}))
    other = SE.run(tree, {"variant": None})
    has_panic = False
    if other.diverge:
        has_panic = other.diverge != "no arm matches"
    else:
        raise Unrecognised("%s: a variant without an arm of its own does not reach a panic: %s" % (fn_name, H.brief(other.value, 80)))
    t = NameTable(imp, fn_name, arms, has_panic, True)
    t.via = "tree"
    return t


def name_table_shape(imp: dict, fn_name: str, wrap_defs: Tuple[str, ...], self_param: int = 0, fmt_param: Optional[int] = None,
                     siblings: Optional[Dict[str, dict]] = None) -> NameTable:
    """Recognise `match <self> { E::V.. => <name expr>, .., [_ => panic] }`.

    <name expr> ::= "lit" | W("lit"[, f]) | W(binding[, f]) | W(&format_args!(..)|&format!(..), f) with W in wrap_defs."""
    f = fn_of(imp, fn_name)
    if f is None:
        raise Unrecognised("impl lacks fn " + fn_name)
    stmts, tail = H.tail_of_body(f["body"]["tree"])
    if stmts:
        raise Unrecognised("unexpected statements in " + fn_name, stmts)
    m = H.match_on(tail)
    if m is None:
        # delegation to a sibling method: x.into_str()
        t = H.strip(tail)
        if isinstance(t, dict) and t.get("k") == "mcall" and not t["args"] and H.is_self_scrutinee(t["recv"], self_param):
            return NameTable(imp, fn_name, [], False, True, delegated_to=t.get("def"))
        raise Unrecognised(fn_name + " is not a match on self: " + H.brief(tail), tail)
    scrut_ok = H.is_self_scrutinee(m["scrut"], self_param)
    arms: List[NameArm] = []
    has_panic = False
    for arm in m["arms"]:
        if arm.get("guard") is not None:
            raise Unrecognised("guard in " + fn_name, arm)
        if H.is_wild(arm["pat"]):
            if H.diverges(arm["body"]):
                has_panic = True
                continue
            raise Unrecognised("wildcard arm of %s does not diverge" % fn_name, arm)
        for alt in H.pat_alternatives(arm["pat"]):
            vp = H.variant_pat(alt)
            if vp is None:
                raise Unrecognised("arm pattern of %s is not a variant: %s" % (fn_name, H.render_pat(alt)), arm)
            arms.append(_name_arm(vp, arm["body"], wrap_defs, fmt_param, arm))
    return NameTable(imp, fn_name, arms, has_panic, scrut_ok)


def _name_arm(vp: H.VPat, body: Any, wrap_defs, fmt_param, node) -> NameArm:
    body = H.strip(body)
    if H.diverges(body):
        return NameArm(vp.variant, "panic", vpat=vp, node=node)
    v = H.lit_value(body, "str") if H.is_str_lit(body) else None
    if v is not None:
        return NameArm(vp.variant, "lit", lit=v, vpat=vp, node=node)
    co = H.call_of(body)
    if co and co[0].get("def") in wrap_defs:
        f, args = co
        formatter_ok = None
        if fmt_param is not None:
            formatter_ok = len(args) == 2 and H.is_local(args[1], param=fmt_param)
            if len(args) != 2:
                return NameArm(vp.variant, "other", vpat=vp, node=node)
        elif len(args) != 1:
            return NameArm(vp.variant, "other", vpat=vp, node=node)
        a0 = H.strip(args[0])
        targs = f.get("targs")
        if H.is_str_lit(a0):
            return NameArm(vp.variant, "lit", lit=H.lit_value(a0, "str"), vpat=vp, callee=f.get("def"), callee_targs=targs, formatter_ok=formatter_ok, node=node)
        binds = _bindings_of(vp)
        if isinstance(a0, dict) and a0.get("k") == "local" and a0.get("id") in binds:
            return NameArm(vp.variant, "forward", vpat=vp, callee=f.get("def"), callee_targs=targs, fwd_binding={"field": binds[a0["id"]][0], "b": binds[a0["id"]][1]}, formatter_ok=formatter_ok, node=node)
        # &format_args!(..) / &format!(..)
        inner = a0
        if isinstance(inner, dict) and inner.get("k") == "ref":
            inner = H.strip(inner["e"])
        if isinstance(inner, dict) and inner.get("k") == "fmt_args":
            return NameArm(vp.variant, "fmt", vpat=vp, callee=f.get("def"), fmt=inner.get("fa"), fmt_macro="format_args", formatter_ok=formatter_ok, node=node)
        if isinstance(inner, dict) and inner.get("k") == "macro" and inner.get("name") == "format":
            fa = None
            for n in H.walk(inner):
                if n.get("k") == "fmt_args":
                    fa = n.get("fa")
                    break
            return NameArm(vp.variant, "fmt", vpat=vp, callee=f.get("def"), fmt=fa, fmt_macro="format", formatter_ok=formatter_ok, node=node)
        return NameArm(vp.variant, "other", vpat=vp, callee=f.get("def"), formatter_ok=formatter_ok, node=node)
    # f.pad("lit")
    if isinstance(body, dict) and body.get("k") == "mcall" and body.get("def") == "core::fmt::Formatter::<'a>::pad" and fmt_param is not None:
        if H.is_local(body["recv"], param=fmt_param) and len(body["args"]) == 1 and H.is_str_lit(body["args"][0]):
            return NameArm(vp.variant, "lit", lit=H.lit_value(body["args"][0], "str"), vpat=vp, callee=DISPLAY_FMT, formatter_ok=True, node=node)
    # "lit".to_string() / .to_owned() / .into()  (ToString derive)
    if isinstance(body, dict) and body.get("k") == "mcall" and not body["args"] and H.is_str_lit(body["recv"]) and body["name"] in ("to_string", "to_owned", "into"):
        return NameArm(vp.variant, "lit", lit=H.lit_value(body["recv"], "str"), vpat=vp, callee=body.get("def"), node=node)
    return NameArm(vp.variant, "other", vpat=vp, node=node)


# ------------------------------------------------------------------------------------------------
# generic `match self { variant patterns => body }`
# ------------------------------------------------------------------------------------------------

@dataclass
class VMatch:
    arms: List[Tuple[H.VPat, Any, Any]]      # (variant pattern, body, arm node)
    wild: Optional[Any]                       # body of the wildcard arm, if any
    scrut_ok: bool
    stmts: List[dict]


def variant_match(fn: dict, self_param: int = 0, allow_stmts: bool = False, fns: Optional[Dict[str, dict]] = None, accept=None) -> VMatch:
    """accept(body) -> bool: what the caller can interpret as an arm result; when the emitted arms are matched but some
    result is not of that form (a call to a sibling method, a block with an early return ..) the normaliser is tried."""
    try:
        vm = variant_match_shape(fn, self_param, allow_stmts)
        if accept is not None and not allow_stmts:
            bodies = [b for _vp, b, _n in vm.arms] + ([vm.wild] if vm.wild is not None else [])
            if not all(accept(b) for b in bodies):
                try:
                    vt = variant_match_tree(fn, self_param, fns)
                    tb = [b for _vp, b, _n in vt.arms] + ([vt.wild] if vt.wild is not None else [])
                    if all(accept(b) for b in tb):
                        return vt
                except Unrecognised:
                    pass
        return vm
    except Unrecognised as e1:
        if allow_stmts:
            raise
        try:
            return variant_match_tree(fn, self_param, fns)
        except Unrecognised as e2:
            raise Unrecognised("%s [decision-tree normaliser: %s]" % (e1, e2), getattr(e1, "node", None))


def variant_match_tree(fn: dict, self_param: int, fns) -> VMatch:
    import symeval as SE
    b, tree, variants = _variant_tree(fn, self_param, fns)
    arms = []
    for vn in variants:
        leaf = SE.run(tree, {"variant": vn})
        body = leaf.value if leaf.value is not None else {"k": "macro", "name": "panic", "never": True, "e": None}
        vp = _vpat_for(leaf, vn)
        arms.append((vp, body, {"pat": vp.node, "body": body, "normalised": True}))
    other = SE.run(tree, {"variant": None})
    wild = None
    if not (other.diverge == "no arm matches"):
        wild = other.value if other.value is not None else {"k": "macro", "name": "panic", "never": True, "e": None}
    return VMatch(arms, wild, True, [])


def variant_match_shape(fn: dict, self_param: int = 0, allow_stmts: bool = False) -> VMatch:
    stmts, tail = H.tail_of_body(fn["body"]["tree"])
    if stmts and not allow_stmts:
        raise Unrecognised("unexpected statements in " + fn["name"], stmts)
    m = H.match_on(tail)
    if m is None:
        raise Unrecognised("%s is not a match: %s" % (fn["name"], H.brief(tail)), tail)
    arms = []
    wild = None
    for arm in m["arms"]:
        if arm.get("guard") is not None:
            raise Unrecognised("guard in " + fn["name"], arm)
        if H.is_wild(arm["pat"]):
            wild = arm["body"]
            break
        for alt in H.pat_alternatives(arm["pat"]):
            vp = H.variant_pat(alt)
            if vp is None:
                raise Unrecognised("arm pattern of %s is not a variant: %s" % (fn["name"], H.render_pat(alt)), arm)
            arms.append((vp, arm["body"], arm))
    return VMatch(arms, wild, H.is_self_scrutinee(m["scrut"], self_param), stmts)


def first_arm_for(vm: VMatch, variant: str):
    for vp, body, node in vm.arms:
        if vp.variant == variant:
            return ("arm", body, node)
    if vm.wild is not None:
        return ("wild", vm.wild, None)
    return None


def option_str(e: Any):
    """Some("lit") -> ('some', lit); None -> ('none',); else ('other', text)."""
    e = H.strip(e)
    if isinstance(e, dict) and e.get("k") == "path" and e.get("def") == NONE:
        return ("none",)
    co = H.call_of(e)
    if co and co[0].get("def") == SOME and len(co[1]) == 1:
        a = H.strip(co[1][0])
        if isinstance(a, dict) and a.get("k") == "lit":
            if a.get("ty") == "int":
                v = int(a["v"])
                return ("some", -v if a.get("neg") else v, "int")
            return ("some", a.get("v"), a.get("ty"))
        return ("other", H.brief(e))
    return ("other", H.brief(e))


def static_str_array(e: Any):
    """`{ static ARR: [&str; n] = [..]; &ARR }` or `&[..]` -> list of literals."""
    e0 = e
    e = H.strip(e)
    if isinstance(e, dict) and e.get("k") == "block":
        statics = {}
        for s in e["stmts"]:
            if s.get("k") == "item" and s.get("item") == "static":
                body = H.strip(s["body"]["tree"])
                statics[s["name"]] = body
            else:
                return None
        t = H.strip(e.get("tail"))
        if isinstance(t, dict) and t.get("k") == "ref":
            r = H.strip(t["e"])
            if isinstance(r, dict) and r.get("k") == "path" and r.get("dk", "").startswith("Static"):
                nm = (r.get("written") or "").split("::")[-1]
                arr = statics.get(nm)
                if isinstance(arr, dict) and arr.get("k") == "array":
                    vals = [H.lit_value(x, "str") for x in arr["elems"]]
                    if all(v is not None for v in vals):
                        return vals
        return None
    if isinstance(e, dict) and e.get("k") == "ref":
        a = H.strip(e["e"])
        if isinstance(a, dict) and a.get("k") == "array":
            vals = [H.lit_value(x, "str") for x in a["elems"]]
            if all(v is not None for v in vals):
                return vals
    return None


def array_behind(e: Any) -> Optional[dict]:
    """The array literal an expression denotes: `&[..]`, `[..]`, `{ const/static N: [T; n] = [..]; &N }`, a path to such a
    nested item (constant folding of item references only)."""
    items: Dict[str, dict] = {}
    for _ in range(6):
        e = H.strip(e)
        if not isinstance(e, dict):
            return None
        k = e.get("k")
        if k == "block":
            for s_ in e["stmts"]:
                if s_.get("k") != "item":
                    return None
                if s_.get("item") in ("const", "static") and s_.get("body"):
                    items[s_["name"]] = s_
            e = e.get("tail")
            continue
        if k in ("ref", "cast"):
            e = e["e"]
            continue
        if k == "path" and str(e.get("dk", "")).startswith(("Const", "Static")):
            it = items.get((e.get("written") or "").split("::")[-1])
            if it is None:
                return None
            e = it["body"]["tree"]
            continue
        if k == "array":
            return e
        return None
    return None


def const_str_slice(imp: dict, name: str) -> List[str]:
    c = assoc_of(imp, name, "const")
    if c is None or "body" not in c:
        raise Unrecognised("impl lacks const " + name)
    t = H.strip(c["body"]["tree"])
    arr = array_behind(t)
    if arr is not None and not (isinstance(t, dict) and t.get("k") == "ref" and isinstance(H.strip(t["e"]), dict) and H.strip(t["e"]).get("k") == "array"):
        vals = [H.lit_value(x, "str") for x in arr["elems"]]
        if all(v is not None for v in vals):
            return vals
    if isinstance(t, dict) and t.get("k") == "ref":
        a = H.strip(t["e"])
        if isinstance(a, dict) and a.get("k") == "array":
            vals = [H.lit_value(x, "str") for x in a["elems"]]
            if all(v is not None for v in vals):
                return vals
    raise Unrecognised("const %s is not a slice of string literals: %s" % (name, H.brief(t)), t)


def const_ctor_slice(imp: dict, name: str) -> List[H.Ctor]:
    c = assoc_of(imp, name, "const")
    if c is None or "body" not in c:
        raise Unrecognised("impl lacks const " + name)
    t = H.strip(c["body"]["tree"])
    a = array_behind(t)
    if a is not None:
        cs = [H.ctor_of(x) for x in a["elems"]]
        if all(x is not None for x in cs):
            return cs
    if isinstance(t, dict) and t.get("k") == "ref":
        a = H.strip(t["e"])
        if isinstance(a, dict) and a.get("k") == "array":
            cs = [H.ctor_of(x) for x in a["elems"]]
            if all(x is not None for x in cs):
                return cs
    raise Unrecognised("const %s is not a slice of unit constructors: %s" % (name, H.brief(t)), t)


# ------------------------------------------------------------------------------------------------
# functions of one integer (index tables, from_repr) through the decision-tree normaliser
# ------------------------------------------------------------------------------------------------

def int_table_tree(fn: dict, int_param: int, fns: Optional[Dict[str, dict]] = None, extra: List[int] = (), lo: Optional[int] = None, hi: Optional[int] = None):
    """-> (rows, others): rows = [(k, value)] for every constant k the function compares its parameter with (source order),
    others = [(n, value)] for one representative n of every other cell of the partition the comparisons induce."""
    import symeval as SE
    fns2 = dict(fns or {})
    fns2.pop(fn.get("def"), None)
    b = SE.Builder(fn, {int_param: "int"}, fns2)
    tree = b.tree()
    ats = SE.atoms(tree)
    bad = [a for a in ats if a[0] not in ("int", "intx")]
    if bad:
        raise Unrecognised("%s branches on something other than its integer parameter: %r" % (fn["name"], bad[0]))
    keys = []
    for a in b.atoms_in_source_order():
        if a[0] == "int" and a[1] == "==" and a[2] not in keys:
            keys.append(a[2])
    if any(a[0] == "intx" for a in ats):
        # arithmetic on the parameter: no distinguished constants -- every evaluated point is a row
        keys = [n for n in SE.int_reps(ats, extra, lo, hi)]
    rows = []
    for k in keys:
        leaf = SE.run(tree, {"int": k})
        if leaf.diverge:
            raise Unrecognised("%s(%d) does not return: %s" % (fn["name"], k, leaf.diverge))
        rows.append((k, leaf.value))
    others = []
    key_set = set(keys)
    for n in SE.int_reps(ats, extra, lo, hi):
        if n in key_set:
            continue
        leaf = SE.run(tree, {"int": n})
        if leaf.diverge:
            raise Unrecognised("%s(%d) does not return: %s" % (fn["name"], n, leaf.diverge))
        others.append((n, leaf.value))
    return rows, others
