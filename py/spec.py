"""Oracle: an independent re-statement of strum's documented behaviour.

Input: the AST facts of one enum (as emitted by factdrv `adts[*]`). Output: an `EnumSpec` holding, per
variant, everything the property statements talk about (spellings, canonical name, flags, messages,
properties) and, per enum, the options.  Written from the property texts and
strum/src/additional_attributes.rs -- it shares no code with strum_macros.
"""
from __future__ import annotations
import re
from dataclasses import dataclass, field
from typing import Optional, List, Dict, Tuple, Any


class Unmodelled(Exception):
    """The enum uses a construct the oracle does not model (repo enums are skipped, corpus enums must not)."""


# ------------------------------------------------------------------------------------------------
# casing
# ------------------------------------------------------------------------------------------------

STYLE_TABLE = {
    # documented names
    "camelCase": "camel",
    "PascalCase": "pascal",
    "kebab-case": "kebab",
    "snake_case": "snake",
    "SCREAMING_SNAKE_CASE": "shouty_snake",
    "SCREAMING-KEBAB-CASE": "shouty_kebab",
    "lowercase": "lower",
    "UPPERCASE": "upper",
    "title_case": "title",
    "mixed_case": "mixed",
    "Train-Case": "train",
    # legacy aliases accepted by the parser
    "camel_case": "pascal",
    "snek_case": "snake",
    "kebab_case": "kebab",
    "shouty_snake_case": "shouty_snake",
    "shouty_snek_case": "shouty_snake",
}
DOCUMENTED_STYLES = ["camelCase", "PascalCase", "kebab-case", "snake_case", "SCREAMING_SNAKE_CASE",
                     "SCREAMING-KEBAB-CASE", "lowercase", "UPPERCASE", "title_case", "mixed_case", "Train-Case"]


def words(ident: str) -> List[str]:
    """Split an identifier into words: at every non-alphanumeric character; before an upper-case letter
    that follows a lower-case position (a lower-case letter, or caseless characters after one); and before
    the last letter of an upper-case run that is followed by a lower-case letter (acronym boundary)."""
    out: List[str] = []
    for piece in _split_unicode(ident):
        if not piece:
            continue
        start = 0
        mode = None  # None | 'l' | 'u'
        n = len(piece)
        for i, c in enumerate(piece):
            if i + 1 >= n:
                break
            nxt = piece[i + 1]
            if c.islower():
                cur = 'l'
            elif c.isupper():
                cur = 'u'
            else:
                cur = mode
            if cur == 'l' and nxt.isupper():
                out.append(piece[start:i + 1])
                start = i + 1
                mode = None
            elif mode == 'u' and c.isupper() and nxt.islower():
                if i > start:
                    out.append(piece[start:i])
                start = i
                mode = None
            else:
                mode = cur
        out.append(piece[start:])
    return [w for w in out if w]


def _split_unicode(ident: str) -> List[str]:
    cur = ""
    res = []
    for c in ident:
        if c.isalnum():
            cur += c
        else:
            res.append(cur)
            cur = ""
    res.append(cur)
    return res


def _cap(w: str) -> str:
    return w[:1].upper() + w[1:].lower()


def case(ident: str, style: Optional[str]) -> str:
    """Convert `ident` to the style class (value of STYLE_TABLE) or leave unchanged when style is None."""
    if style is None:
        return ident
    ws = words(ident)
    if style == "pascal":
        return "".join(_cap(w) for w in ws)
    if style == "camel":
        p = "".join(_cap(w) for w in ws)
        return p[:1].lower() + p[1:]
    if style == "mixed":
        return "".join(w.lower() if i == 0 else _cap(w) for i, w in enumerate(ws))
    if style == "snake":
        return "_".join(w.lower() for w in ws)
    if style == "kebab":
        return "-".join(w.lower() for w in ws)
    if style == "shouty_snake":
        return "_".join(w.upper() for w in ws)
    if style == "shouty_kebab":
        return "-".join(w.upper() for w in ws)
    if style == "title":
        return " ".join(_cap(w) for w in ws)
    if style == "train":
        return "-".join(_cap(w) for w in ws)
    if style == "lower":
        return ident.lower()
    if style == "upper":
        return ident.upper()
    raise ValueError(style)


def snakify(ident: str) -> str:
    """snake_case with an underscore before each digit run that follows a non-digit."""
    s = case(ident, "snake")
    out = []
    for i, c in enumerate(s):
        if c.isdigit() and i != 0 and not s[i - 1].isdigit():
            out.append("_")
        out.append(c)
    return "".join(out)


# ------------------------------------------------------------------------------------------------
# attribute parsing (token lists from the AST facts)
# ------------------------------------------------------------------------------------------------

def split_commas(tokens: List[dict]) -> List[List[dict]]:
    out, cur = [], []
    for t in tokens:
        if t["t"] == "punct" and t["v"] == ",":
            out.append(cur)
            cur = []
        else:
            cur.append(t)
    if cur:
        out.append(cur)
    return [c for c in out if c]


def tokens_text(tokens: List[dict]) -> str:
    s = ""
    for t in tokens:
        if t["t"] == "group":
            close = {"(": ")", "[": "]", "{": "}"}[t["d"]]
            s += t["d"] + tokens_text(t["ts"]) + close
        elif t["t"] == "lit":
            if str(t.get("lk", "")).startswith("Str") and t.get("ty") == "str":
                s += '"' + t.get("raw", "") + '"'
            else:
                s += t.get("raw", str(t.get("v"))) + t.get("suffix", "")
        else:
            s += str(t["v"])
    return s


def path_text(tokens: List[dict]) -> str:
    return tokens_text(tokens).replace(" ", "")


@dataclass
class Meta:
    key: str
    form: str            # 'word' | 'eq' | 'list'
    value: Any = None    # literal token (eq) / token list (list) / token list (eq with path)
    tokens: List[dict] = field(default_factory=list)


def parse_metas(tokens: List[dict]) -> List[Meta]:
    metas = []
    for part in split_commas(tokens):
        head = part[0]
        if head["t"] != "ident":
            raise Unmodelled("meta does not start with an identifier: " + tokens_text(part))
        key = head["v"]
        if len(part) == 1:
            metas.append(Meta(key, "word", None, part))
        elif part[1]["t"] == "punct" and part[1]["v"] == "=":
            rest = part[2:]
            if len(rest) == 1 and rest[0]["t"] == "lit":
                metas.append(Meta(key, "eq", rest[0], part))
            else:
                metas.append(Meta(key, "eq", rest, part))
        elif part[1]["t"] == "group" and len(part) == 2:
            metas.append(Meta(key, "list", part[1]["ts"], part))
        else:
            raise Unmodelled("unrecognised meta: " + tokens_text(part))
    return metas


def _str_value(m: Meta) -> str:
    if m.form != "eq" or not isinstance(m.value, dict) or m.value.get("ty") != "str":
        raise Unmodelled(f"{m.key} expects a string literal")
    return m.value["v"]


# ------------------------------------------------------------------------------------------------
# model
# ------------------------------------------------------------------------------------------------

@dataclass
class FieldSpec:
    name: Optional[str]
    ty: str
    is_ref: bool
    default_with: Optional[str] = None


@dataclass
class VariantSpec:
    name: str
    index: int                      # declaration index among all variants
    kind: str                       # unit | tuple | named
    fields: List[FieldSpec]
    disc_expr: Optional[str]
    serialize: List[str] = field(default_factory=list)
    to_string: Optional[str] = None
    disabled: bool = False
    default: bool = False
    transparent: bool = False
    default_with: Optional[str] = None
    aci: Optional[bool] = None      # variant-level ascii_case_insensitive
    message: Optional[str] = None
    detailed_message: Optional[str] = None
    docs: List[str] = field(default_factory=list)
    props: List[Tuple[str, dict]] = field(default_factory=list)   # (key, literal token)
    disc_passthrough: List[str] = field(default_factory=list)     # strum_discriminants(..) on the variant
    raw_ident: bool = False         # written as r#ident (keyword): the oracle does not model the name of such a variant
    other_attrs: List[str] = field(default_factory=list)

    # ---- derived ----
    def has_explicit_name(self) -> bool:
        return bool(self.serialize) or self.to_string is not None


@dataclass
class EnumSpec:
    name: str
    def_path: str
    kind: str
    span: str
    variants: List[VariantSpec]
    lifetimes: List[str]
    type_params: List[str]
    const_params: List[str]
    style_str: Optional[str] = None
    style: Optional[str] = None        # style class
    aci: bool = False
    crate_path: Optional[str] = None
    use_phf: bool = False
    prefix: Optional[str] = None
    parse_err_ty: Optional[str] = None
    parse_err_fn: Optional[str] = None
    const_into_str: bool = False
    repr_tokens: Optional[str] = None
    repr_int: Optional[str] = None
    vis: str = ""
    disc_derives: List[str] = field(default_factory=list)
    disc_name: Optional[str] = None
    disc_vis: Optional[str] = None
    disc_docs: List[str] = field(default_factory=list)
    disc_others: List[str] = field(default_factory=list)
    has_disc_attr: bool = False
    raw: dict = field(default_factory=dict)

    # ---------------- per-variant semantic functions ----------------
    def cased(self, v: VariantSpec) -> str:
        return case(v.name, self.style)

    def spellings(self, v: VariantSpec) -> List[str]:
        """C01/C14: serialize* ++ [to_string]?, else the cased identifier."""
        out = list(v.serialize)
        if v.to_string is not None:
            out.append(v.to_string)
        if not out:
            out.append(self.cased(v))
        return out

    def canonical_set(self, v: VariantSpec) -> List[str]:
        """C03: to_string, else a longest serialize (ties: any of them), else cased ident; prefix prepended."""
        if v.to_string is not None:
            base = [v.to_string]
        elif v.serialize:
            m = max(len(s.encode("utf-8")) for s in v.serialize)
            base = [s for s in v.serialize if len(s.encode("utf-8")) == m]
        else:
            base = [self.cased(v)]
        p = self.prefix or ""
        return [p + b for b in base]

    def ci(self, v: VariantSpec) -> bool:
        return v.aci if v.aci is not None else self.aci

    def names_modelled(self) -> bool:
        """False when a variant without explicit spelling is a raw identifier: what its 'identifier' is as a string (with or
        without `r#`) is not fixed by the properties, so name-comparing checks skip the enum; relational checks still use it."""
        return not any(v.raw_ident and not v.has_explicit_name() for v in self.variants)

    def enabled(self) -> List[VariantSpec]:
        return [v for v in self.variants if not v.disabled]

    def default_variant(self) -> Optional[VariantSpec]:
        ds = [v for v in self.enabled() if v.default]
        return ds[0] if ds else None

    def docs_text(self, v: VariantSpec) -> Optional[str]:
        if not v.docs:
            return None
        stripped = [d[1:] if d.startswith(" ") else d for d in v.docs]
        if len(stripped) == 1:
            return stripped[0]
        return "".join(s + "\n" for s in stripped)

    def message(self, v: VariantSpec) -> Optional[str]:
        return None if v.disabled else v.message

    def detailed(self, v: VariantSpec) -> Optional[str]:
        if v.disabled:
            return None
        return v.detailed_message if v.detailed_message is not None else v.message

    def documentation(self, v: VariantSpec) -> Optional[str]:
        return None if v.disabled else self.docs_text(v)

    def props_of(self, v: VariantSpec, ty: str) -> Dict[str, Any]:
        """C15: merged over all props(..) groups; for a repeated key the first occurrence wins (match order)."""
        out: Dict[str, Any] = {}
        if v.disabled:
            return out
        for k, lit in v.props:
            lty = lit.get("ty")
            if lty != ty:
                continue
            if k in out:
                continue
            if ty == "int":
                val = int(lit["v"])
                if lit.get("neg"):
                    val = -val
                out[k] = val
            else:
                out[k] = lit["v"]
        return out

    def repr_ty(self) -> str:
        return self.repr_int if self.repr_int else "usize"

    def strum_path(self) -> str:
        return self.crate_path if self.crate_path else "::strum"

    def discriminants_name(self) -> str:
        return self.disc_name or (self.name + "Discriminants")


INT_REPRS = ["u8", "u16", "u32", "u64", "usize", "i8", "i16", "i32", "i64", "isize"]
INT_REPRS_ALL = INT_REPRS + ["u128", "i128"]


def _parse_variant(idx: int, v: dict) -> VariantSpec:
    fields = []
    for f in v["fields"]:
        fs = FieldSpec(f["name"], f["ty"], f["is_ref"])
        for a in f["attrs"]:
            if a["path"] == "strum":
                if a.get("form") != "list":
                    raise Unmodelled("field strum attr is not a list")
                for m in parse_metas(a["tokens"]):
                    if m.key == "default_with":
                        fs.default_with = _str_value(m)
                    else:
                        raise Unmodelled("field meta " + m.key)
        fields.append(fs)
    vs = VariantSpec(v["name"], idx, v["kind"], fields, v.get("disc_expr"))
    vs.raw_ident = bool(v.get("raw_ident"))
    for a in v["attrs"]:
        p = a["path"]
        if p == "doc":
            if "doc" in a and isinstance(a["doc"], str):
                vs.docs.append(a["doc"])
            # #[doc(hidden)] etc. are not documentation strings
            continue
        if p == "strum":
            if a.get("form") != "list":
                raise Unmodelled("variant strum attr is not a list")
            for m in parse_metas(a["tokens"]):
                k = m.key
                if k == "serialize":
                    vs.serialize.append(_str_value(m))
                elif k == "to_string":
                    vs.to_string = _str_value(m)
                elif k == "message":
                    vs.message = _str_value(m)
                elif k == "detailed_message":
                    vs.detailed_message = _str_value(m)
                elif k == "disabled" and m.form == "word":
                    vs.disabled = True
                elif k == "default" and m.form == "word":
                    vs.default = True
                elif k == "transparent" and m.form == "word":
                    vs.transparent = True
                elif k == "default_with":
                    vs.default_with = _str_value(m)
                elif k == "ascii_case_insensitive":
                    if m.form == "word":
                        vs.aci = True
                    elif m.form == "eq" and isinstance(m.value, dict) and m.value.get("ty") == "bool":
                        vs.aci = bool(m.value["v"])
                    else:
                        raise Unmodelled("ascii_case_insensitive value")
                elif k == "props" and m.form == "list":
                    for part in split_commas(m.value):
                        if len(part) < 3 or part[0]["t"] != "ident" or part[1].get("v") != "=":
                            raise Unmodelled("props entry")
                        key = ("r#" if part[0].get("rawid") else "") + part[0]["v"]
                        rest = part[2:]
                        neg = False
                        if rest and rest[0]["t"] == "punct" and rest[0]["v"] == "-":
                            neg = True
                            rest = rest[1:]
                        if len(rest) != 1 or rest[0]["t"] != "lit":
                            raise Unmodelled("props value")
                        lit = dict(rest[0])
                        lit["neg"] = neg
                        vs.props.append((key, lit))
                else:
                    raise Unmodelled("variant meta " + k)
            continue
        if p == "strum_discriminants":
            vs.disc_passthrough.append(a.get("text", ""))
            continue
        vs.other_attrs.append(p)
    return vs


def parse_enum(adt: dict) -> EnumSpec:
    g = adt["generics"]
    es = EnumSpec(
        name=adt["name"], def_path=adt.get("def") or adt["name"], kind=adt["kind"], span=adt["ident_span"],
        variants=[], lifetimes=list(g["lifetimes"]), type_params=[t["name"] for t in g["types"]],
        const_params=[c["name"] for c in g["consts"]], vis=adt.get("vis", ""), raw=adt)
    if adt["kind"] == "enum":
        es.variants = [_parse_variant(i, v) for i, v in enumerate(adt["variants"])]
    for a in adt["attrs"]:
        p = a["path"]
        if p == "strum":
            if a.get("form") != "list":
                raise Unmodelled("enum strum attr is not a list")
            for m in parse_metas(a["tokens"]):
                k = m.key
                if k == "serialize_all":
                    es.style_str = _str_value(m)
                    if es.style_str not in STYLE_TABLE:
                        raise Unmodelled("unknown style " + es.style_str)
                    es.style = STYLE_TABLE[es.style_str]
                elif k == "ascii_case_insensitive" and m.form == "word":
                    es.aci = True
                elif k == "crate":
                    es.crate_path = _str_value(m)
                elif k == "use_phf" and m.form == "word":
                    es.use_phf = True
                elif k == "prefix":
                    es.prefix = _str_value(m)
                elif k == "parse_err_ty" and m.form == "eq":
                    es.parse_err_ty = path_text(m.value if isinstance(m.value, list) else [m.value])
                elif k == "parse_err_fn" and m.form == "eq":
                    es.parse_err_fn = path_text(m.value if isinstance(m.value, list) else [m.value])
                elif k == "const_into_str" and m.form == "word":
                    es.const_into_str = True
                else:
                    raise Unmodelled("enum meta " + k)
        elif p == "strum_discriminants":
            es.has_disc_attr = True
            if a.get("form") != "list":
                raise Unmodelled("strum_discriminants attr is not a list")
            for m in parse_metas(a["tokens"]):
                if m.key == "derive" and m.form == "list":
                    es.disc_derives += [path_text(p_) for p_ in split_commas(m.value)]
                elif m.key == "name" and m.form == "list":
                    es.disc_name = tokens_text(m.value)
                elif m.key == "vis" and m.form == "list":
                    es.disc_vis = tokens_text(m.value)
                elif m.key == "doc" and m.form == "eq":
                    es.disc_docs.append(_str_value(m))
                elif m.form == "list":
                    es.disc_others.append(m.key + "(" + tokens_text(m.value) + ")")
                else:
                    raise Unmodelled("strum_discriminants meta " + m.key)
        elif p == "repr" and a.get("form") == "list":
            es.repr_tokens = tokens_text(a["tokens"])
            # the integer type may be one of several hints (`C, u8`, `align(2), i16`), in any of several #[repr] attributes
            for part in split_commas(a["tokens"]):
                if len(part) == 1 and part[0]["t"] == "ident" and part[0]["v"] in INT_REPRS:
                    es.repr_int = part[0]["v"]
    return es
