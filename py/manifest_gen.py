#!/usr/bin/env python3
"""Regenerates /verif/MANIFEST.json from the table below (kept in one place so it stays valid)."""
import json
import os
import sys

VERIF = os.path.dirname(os.path.dirname(os.path.abspath(__file__)))

TV = "translation_validation"

CHECKS = {
    "C01": (TV, "X", "translation validation of the generated from_str decision table against an independent oracle; match semantics decide all input strings",
            "Per enum definition (repository test crates + generated witness corpus in 4 build configurations) the resolved HIR of the generated FromStr/TryFrom impls is recognised as a decision table (phf map, literal arms, eq_ignore_ascii_case guard arms, constructors with Default/default_with payloads, fall-through) and compared with the table computed by the oracle from the enum's attributes. Table equality + Rust match semantics decide the property for every input string of that enum; the programs quantifier is covered by the corpus only.",
            "rustc front end as fact extractor; oracle py/spec.py; non-overlapping spellings (re-checked); finite corpus of enum definitions"),
    "C02": (TV, "X", "relational translation validation: generated printer literals evaluated against the sibling generated parse table",
            "For every enum deriving EnumString with Display/AsRefStr/IntoStaticStr (no prefix) the literal of each generated printer arm, and each element of the generated get_serializations array, is evaluated against the generated from_str table by match semantics and must produce the same variant. Uses generated code on both sides, so it is independent of the oracle.",
            "finite corpus; payload reset is C01's constructor check"),
    "C03": (TV, "X", "translation validation of every name-producing impl against the oracle's canonical name",
            "Literal in Display, AsRef<str>, AsStaticRef, From<E>, From<&E>, const into_str, ToString arms and VariantNames::VARIANTS[i] equals the canonical name (to_string, else longest serialize, else cased identifier; prefix prepended) for every eligible variant; all outputs agree on ties.",
            "finite corpus; casing oracle (C07)"),
    "C04": (TV, "X", "translation validation of the iterator's index->constructor table and COUNT",
            "EIter::get is recognised as a dense match 0..n over the enabled variants in declaration order with Default payloads; cursor methods mention no other length; COUNT const-evaluated by rustc equals n; iter() zeroes the cursors. Traversal order relies on the cursor specification of C05.",
            "finite corpus; order clause depends on C05"),
    "C06": (TV, "X", "translation validation with rustc as oracle: const-evaluated from_repr constants vs adt_def discriminants",
            "Each K_i of the generated `v if v == K_i` arms is evaluated by rustc (const_eval_poly); the map value->variant must equal rustc's own discriminants of the enabled variants; parameter type, constness, payload defaults and the None wildcard are checked. Builtin integer equality decides every d of the repr type.",
            "finite corpus (11 reprs x discriminant forms x disabled placement)"),
    "C08": (TV, "X", "relational translation validation across COUNT, VariantNames, VariantArray and the iterator table",
            "Sibling generated tables are compared position-wise: COUNT == #iterator entries == #enabled; len(VariantNames) == len(VariantArray) == #declared; position i denotes the i-th declared variant in each.",
            "finite corpus"),
    "C09": (TV, "X", "translation validation of the generated discriminant enum with rustc's discriminants/repr/visibility as oracle",
            "Generated ADT: name, visibility (tcx.visibility), field-less variants in order, discriminant values and ReprOptions equal to the source ADT's; From<E>/From<&E> exhaustive name-preserving matches; IntoDiscriminant delegation; an impl expanded from each built-in/requested derive; pass-through attributes in the expanded AST.",
            "finite corpus"),
    "C10": (TV, "X", "translation validation of the table struct, Index/IndexMut maps and constructors",
            "Variant->slot map recognised from Index and IndexMut must be the same bijection onto the struct's fields; disabled variants diverge; new/filled/from_closure/transform/all/all_ok are recognised field by field in declaration order. Histories follow from injectivity + field disjointness.",
            "finite corpus; Rust struct-field disjointness and textual evaluation order"),
    "C11": (TV, "X", "translation validation of the fall-through capture and of forwarding arms",
            "Fall-through is Ok(Default(Into::into(s))) with s the fn parameter itself; default/transparent arms of Display/AsRefStr/IntoStaticStr are the core trait method applied to the binding of the single field and the fn's own formatter.",
            "From<&str> of the payload type is verbatim (outside strum)"),
    "C12": (TV, "X", "translation validation of arm modes and of the resolved guard callee",
            "An arm is a guard arm iff variant.flag.unwrap_or(enum.flag); the guard callee DefId is exactly core::str::<impl str>::eq_ignore_ascii_case on (input, spelling literal); other arms are literal patterns.",
            "contract of core::str::eq_ignore_ascii_case (ASCII-only folding)"),
    "C13": (TV, "X", "translation validation of is_* predicates and try_as_* accessors",
            "One is_<snakify(V)> per enabled variant with a single positive pattern resolving to V; three try_as methods per enabled tuple variant with receiver modes and return types from the typed signatures, binding and returning fields positionally.",
            "finite corpus; snakify oracle"),
    "C14": (TV, "X", "translation validation of the four EnumMessage lookup tables",
            "First arm matching each variant (disabled included) yields the oracle's message / detailed-or-message / assembled documentation / None; get_serializations array equals spellings(v).",
            "finite corpus"),
    "C15": (TV, "X", "translation validation of the per-(variant,type) property tables",
            "Inner `match prop` of each getter and variant is {key -> Some(literal)} + `_ => None` and equals the oracle's merge of all props(..) groups bucketed by literal type.",
            "finite corpus"),
    "C16": (TV, "X+W", "pairwise translation validation of phf vs plain parser + compile witnesses",
            "Every field-less EnumString corpus enum is compiled with and without use_phf; the 4-clause static equivalence of the two generated tables implies equal results for all strings; the twin of every accepted enum must build.",
            "phf::Map::get contract; finite corpus"),
    "C17": (TV, "X", "translation validation of Display arms incl. AST FormatArgs nodes",
            "Fixed-name arms in all three kind-specific templates are core::fmt::Display::fmt(<literal>, <the fn's formatter>); placeholder arms are format_args!/format! of exactly the literal with fields bound by name / position (from the expanded AST's FormatArgs node).",
            "str's Display implements padding; format_args! is rustc's"),
    "C18": (TV, "X", "translation validation of Err/Error types and the single fall-through site",
            "type Err/Error resolve to the declared type; fall-through is Err(F(s)) with s the untouched parameter and F referenced nowhere else; otherwise Err(ParseError::VariantNotFound).",
            "finite corpus; one recorded known finding (default variant + custom error)"),
}

CHECKS.update({
    "C07": (TV, "G+X", "dispatch-table extraction from strum_macros' resolved HIR (all programs) + translation validation of emitted literals against an independent casing oracle",
            "G5 reads {style string -> CaseStyle variant} and {variant -> ordered casing callees (heck::*, str::to_uppercase ..)} off the generator's own type-checked program and compares the composition with the documented table for all 16 accepted strings - this holds for every enum; G4 shows the conversion is applied at one point every name-producing derive reaches with the enum's case_style; X compares every literal emitted for ~45 identifier shapes x 17 styles (thorough: all 7 774 identifiers up to length 5 over {a,b,A,B,1,_}) with py/spec.py's casing function.",
            "heck's word splitting (third party) trusted to implement the documented boundary rule; oracle calibrated on the unchanged tree"),
    "C19": ("other", "G+X+W", "template token inventory over strum_macros' HIR + resolved-dependency rule over expansions + compile witnesses in three configurations",
            "G6 inspects every quote! template reachable from a non-deprecated derive (976+ identifier pushes): no std/alloc path, no std-prelude-only name, no alloc macro, ::core always rooted, no hard-coded strum path - for all programs. X checks the defining crate and written spelling of every resolved path/method/macro in each generated item. W type-checks the whole corpus as #![no_std] without alloc, with strum only reachable under another name, and with local `core`/`std` modules.",
            "cargo check stands for cargo build; the corpus bounds the 'every enum in its documented domain' quantifier"),
    "C20": ("other", "G+W", "panic-site inventory, dropped-Result rule and entry-point rule over strum_macros' resolved HIR + compile_fail witnesses with compiling twins",
            "G1 enumerates every panic site reachable from the 18 entry points and requires each to match a vetted table (class I/L/O); G2 flags every Result<_, syn::Error> that flows into ok()/unwrap_or*/is_ok/if-let-Ok/unused; G3 checks that every entry point converts Err into compile_error! tokens. W builds one must-fail cargo example per (listed rule, derive) plus a compiling twin, and requires a code-less error (compile_error! from the macro), no panic, and a span inside the offending item.",
            "class-I reasons are human arguments recorded in py/grules.py; syn/quote/proc_macro2 do not panic on valid tokens"),
})

CHECKS.update({
    "C05": ("proof", "A+W+X", "relational abstract interpretation (linear inequalities, Fourier-Motzkin entailment) of the generated iterator's MIR + type-level compile witnesses",
            "For each witness enum (N = 0..9, with/without disabled variants, type- and const-generic, 4 build configurations) the MIR of nth / next_back / size_hint / len / next / clone is interpreted forward in a relational domain over (idx, back_idx, n). Obligations: O1 every Assert(Overflow) is entailed for all n in usize and all cursor states satisfying the invariant (covers debug panic and release wrap-around alike); O2 the invariant 0 <= idx, back_idx <= N holds at every return; O3 the cursor specifications (item index, cursor updates, None exactly when exhausted, exact size_hint, len = size_hint().0, next = nth(0), clone copies the cursors). The same obligations are then discharged once more with the length read as a symbol N (0 <= N <= rustc's VariantIdx::MAX), i.e. for every number of variants; this step is justified by two checked facts: the MIR of every method is identical across witnesses up to the length constant, and the generator function only interpolates the length into the template and never branches on it (if it compares the length with constants, every length interval it distinguishes must contain an analysed witness). Send + Sync for arbitrary type parameters is a compile witness with a failing negative twin; the trait surface is read from the resolved impls and from strum::IntoEnumIterator's bounds.",
            "concrete-N verdicts are per witness enum; the all-N verdict assumes the template is the only source of the methods (checked by uniformity); refinement from O2+O3 to 'behaves like a double-ended iterator over the list' (O4) is a paper argument; core's default adapters trusted"),
})

NOT_YET = {
}


def main():
    props = [json.loads(l) for l in open(os.path.join(VERIF, "properties.jsonl"))]
    extra = {}
    p = os.path.join(VERIF, "py", "manifest_extra.json")
    if os.path.exists(p):
        extra = json.load(open(p))
    checks = []
    na = []
    table = dict(CHECKS)
    for k, v in extra.get("checks", {}).items():
        table[k] = tuple(v)
    for pr in props:
        pid = pr["id"]
        if pid in table:
            lvl, eng, tech, text, note = table[pid]
            checks.append({
                "property_id": pid,
                "quick_cmd": "./check %s --tier quick" % pid,
                "thorough_cmd": "./check %s --tier thorough" % pid,
                "evidence_file": "/verif/evidence/%s.json" % pid,
                "replay_cmd_template": "./check %s --replay {path}" % pid,
                "engine": eng,
                "level_claimed": {"category": lvl, "text": text, "design_ref": "DESIGN.md §7 (%s)" % pid},
                "level_note": note,
                "technique": tech,
            })
        else:
            na.append({"property_id": pid, "reason": extra.get("not_applicable", {}).get(pid, "check under construction in this session (DESIGN.md §12); not claimed yet")})
    m = {
        "version": 1,
        "setup_cmd": "cd /verif/tools/factdrv && CARGO_NET_OFFLINE=true cargo build --release --offline",
        "hooks": {
            "guard": "peternator7_strum_verif",
            "enable": "no hooks: all checks analyse /repo's unmodified sources with a rustc_private driver (RUSTC_WORKSPACE_WRAPPER)",
            "baseline_off_cmd": "cd /repo && cargo test --workspace --no-fail-fast --offline",
            "source_commits": [],
            "add_only": True,
        },
        "engines": [
            {"name": "X", "path": "py/props_strings.py, py/props_tables.py, py/tables.py, py/shapes.py, py/symeval.py, py/spec.py, py/corpus.py", "serves_properties": sorted(k for k, v in table.items() if "X" in v[1]),
             "kind_free_text": "translation validation of macro expansions: resolved HIR/AST facts (tools/factdrv, a rustc_private driver) of generated impls vs an independent oracle, over the repository's enums and a generated witness corpus; a generated body that is not of the emitted shape is first normalised into a decision DAG over decidable atoms (py/symeval.py, DESIGN.md 14.8-14.13) and decided on one representative per cell of the atom partition"},
            {"name": "W", "path": "py/corpus.py, py/witness.py", "serves_properties": sorted(k for k, v in table.items() if "W" in v[1]),
             "kind_free_text": "compile / compile_fail witnesses built as cargo targets, diagnostics attributed per witness"},
            {"name": "G", "path": "py/props_gen.py, tools/factdrv/src/genfacts.rs", "serves_properties": sorted(k for k, v in table.items() if "G" in v[1]),
             "kind_free_text": "rules over strum_macros' own MIR/HIR (call graph, panic sites, dropped syn::Result, template identifier inventory, dispatch tables)"},
            {"name": "A", "path": "py/absint.py, tools/factdrv/src/mirfacts.rs", "serves_properties": sorted(k for k, v in table.items() if "A" in v[1]),
             "kind_free_text": "relational abstract interpretation (linear inequalities, Fourier-Motzkin) of the generated iterator's MIR"},
        ],
        "checks": checks,
        "not_applicable": na,
        "notes": "Static analysis only: no generated strum code is executed (atoms of the decision-tree normaliser are evaluated on representative inputs by their definition). See DESIGN.md, section 14 for the construction report: 200 seeded changes reported (five rounds), 82 behaviour-preserving controls (one known conservative alarm, refactors/R30-1). known_findings.json lists genuine defects (open / fixed).",
    }
    with open(os.path.join(VERIF, "MANIFEST.json"), "w") as f:
        json.dump(m, f, indent=1)
    print("MANIFEST.json: %d checks, %d not_applicable" % (len(checks), len(na)))


if __name__ == "__main__":
    main()
