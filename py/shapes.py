"""Shape recognisers over the JSON expression trees emitted by factdrv.

Tolerant of presentation (blocks, return, macro wrappers, ref/deref pairs), strict about semantics
(callee identity by resolved DefId, literals by cooked value, locals by HirId)."""
from __future__ import annotations
from typing import Any, Dict, List, Optional, Tuple


class Unrecognised(Exception):
    def __init__(self, what: str, node: Any = None):
        super().__init__(what)
        self.what = what
        self.node = node


def brief(e: Any, n: int = 160) -> str:
    """Short rendering of an expression tree for reports."""
    s = render(e)
    return s if len(s) <= n else s[: n - 3] + "..."


def render(e: Any) -> str:
    if e is None:
        return "<none>"
    if not isinstance(e, dict):
        return str(e)
    k = e.get("k")
    if k == "lit":
        v = e.get("v")
        s = repr(v) if e.get("ty") in ("str", "char") else str(v)
        return ("-" if e.get("neg") else "") + s.replace("'", '"') if e.get("ty") == "str" else ("-" if e.get("neg") else "") + str(s)
    if k == "path":
        return e.get("written") or e.get("def") or "?"
    if k == "local":
        return e.get("name", "?")
    if k == "call":
        return "%s(%s)" % (render(e["f"]), ", ".join(render(a) for a in e["args"]))
    if k == "mcall":
        return "%s.%s(%s)" % (render(e["recv"]), e["name"], ", ".join(render(a) for a in e["args"]))
    if k == "match":
        return "match %s {%s}" % (render(e["scrut"]), "; ".join("%s%s => %s" % (render_pat(a["pat"]), (" if " + render(a["guard"])) if a.get("guard") else "", render(a["body"])) for a in e["arms"]))
    if k == "block":
        parts = [render(s) for s in e["stmts"]]
        if e.get("tail") is not None:
            parts.append(render(e["tail"]))
        return "{ " + "; ".join(parts) + " }"
    if k == "ref":
        return ("&mut " if e.get("mut") else "&") + render(e["e"])
    if k == "deref":
        return "*" + render(e["e"])
    if k == "field":
        return render(e["e"]) + "." + e["name"]
    if k == "struct":
        return "%s { %s }" % (render(e["path"]), ", ".join("%s: %s" % (f[0], render(f[1])) for f in e["fields"]))
    if k in ("tup", "array"):
        o, c = ("(", ")") if k == "tup" else ("[", "]")
        return o + ", ".join(render(x) for x in e["elems"]) + c
    if k == "ret":
        return "return " + render(e.get("e"))
    if k == "macro":
        return "%s!(%s)" % (e["name"], render(e["e"]))
    if k == "fmt_args":
        fa = e.get("fa") or {}
        return "format_args!(%r, %s)" % ((fa.get("fmt_str") or {}).get("v"), ", ".join(a.get("expr", "?") for a in fa.get("args", [])))
    if k == "if":
        return "if %s %s else %s" % (render(e["cond"]), render(e["then"]), render(e.get("else")))
    if k == "let_expr":
        return "let %s = %s" % (render_pat(e["pat"]), render(e["init"]))
    if k == "let":
        return "let %s = %s" % (render_pat(e["pat"]), render(e.get("init")))
    if k == "bin":
        return "%s %s %s" % (render(e["l"]), e["op"], render(e["r"]))
    if k == "try":
        return render(e["e"]) + "?"
    if k == "item":
        return "%s %s" % (e.get("item"), e.get("name", ""))
    if k == "semi" or k == "expr_stmt":
        return render(e["e"])
    if k == "closure":
        return "|..| " + render(e["body"])
    if k == "assign":
        return "%s = %s" % (render(e["l"]), render(e["r"]))
    if k == "cast":
        return "%s as %s" % (render(e["e"]), e["ty"])
    if k == "un":
        return e["op"] + render(e["e"])
    if k == "index":
        return "%s[%s]" % (render(e["e"]), render(e["idx"]))
    return "<%s %s>" % (k, e.get("text", ""))


def render_pat(p: Any) -> str:
    if p is None:
        return "<none>"
    k = p.get("k")
    if k == "wild":
        return "_"
    if k == "bind":
        m = p.get("mode")
        return ("" if m == "move" else m + " ") + p["name"] + ((" @ " + render_pat(p["sub"])) if p.get("sub") else "")
    if k == "plit":
        return render(p["lit"])
    if k == "ppath":
        return render(p["path"])
    if k == "pstruct":
        return "%s { %s%s }" % (render(p["path"]), ", ".join("%s: %s" % (f[0], render_pat(f[1])) for f in p["fields"]), ", .." if p.get("rest") else "")
    if k == "ptuple_struct":
        ps = [render_pat(x) for x in p["pats"]]
        if p.get("rest") is not None:
            ps.insert(p["rest"], "..")
        return "%s(%s)" % (render(p["path"]), ", ".join(ps))
    if k == "pref":
        return "&" + render_pat(p["pat"])
    if k == "pderef":
        return "deref " + render_pat(p["pat"])
    if k == "por":
        return " | ".join(render_pat(x) for x in p["pats"])
    if k == "ptuple":
        return "(" + ", ".join(render_pat(x) for x in p["pats"]) + ")"
    return "<%s>" % k


# ------------------------------------------------------------------------------------------------
# normalisation
# ------------------------------------------------------------------------------------------------

KEEP_MACROS = {"format", "write", "writeln", "print", "println", "eprint", "eprintln", "vec", "panic", "todo", "unimplemented",
               "unreachable", "assert", "assert_eq", "assert_ne", "debug_assert", "dbg"}


def strip(e: Any) -> Any:
    """Peel presentation: statement-free blocks, non-diverging macro wrappers, `&*x` / `*&x` pairs."""
    while isinstance(e, dict):
        k = e.get("k")
        if k == "block" and not e["stmts"] and e.get("tail") is not None:
            e = e["tail"]
            continue
        if k == "macro" and not e.get("never") and e["name"] not in KEEP_MACROS:
            e = e["e"]
            continue
        if k == "ref" and isinstance(e["e"], dict) and e["e"].get("k") == "deref":
            e = e["e"]["e"]
            continue
        if k == "deref" and isinstance(e["e"], dict) and e["e"].get("k") == "ref":
            e = e["e"]["e"]
            continue
        break
    return e


def tail_of_body(tree: Any) -> Tuple[List[dict], Any]:
    """Split a fn body into (statements, tail expression); a trailing `return e;` counts as the tail."""
    e = tree
    stmts: List[dict] = []
    while isinstance(e, dict) and e.get("k") == "block":
        stmts = stmts + list(e["stmts"])
        if e.get("tail") is None:
            # `return x;` as last statement
            if stmts and stmts[-1].get("k") in ("semi", "expr_stmt") and strip(stmts[-1]["e"]).get("k") == "ret":
                last = stmts.pop()
                return stmts, strip(strip(last["e"])["e"])
            return stmts, None
        e = e["tail"]
    e = strip(e)
    if isinstance(e, dict) and e.get("k") == "ret":
        e = strip(e.get("e"))
    return stmts, e


def diverges(e: Any) -> bool:
    e = strip(e)
    if not isinstance(e, dict):
        return False
    if e.get("never"):
        return True
    if e.get("k") == "macro" and e.get("name") in ("panic", "unreachable", "todo", "unimplemented"):
        return True
    if e.get("k") == "block":
        for s in e["stmts"]:
            if s.get("k") in ("semi", "expr_stmt") and diverges(s["e"]):
                return True
        return diverges(e.get("tail")) if e.get("tail") is not None else False
    return False


def is_local(e: Any, param: Optional[int] = None, binding_id: Optional[int] = None) -> bool:
    e = strip(e)
    if not isinstance(e, dict) or e.get("k") != "local":
        return False
    if param is not None and e.get("param") != param:
        return False
    if binding_id is not None and e.get("id") != binding_id:
        return False
    return True


def is_def(e: Any, *defs: str) -> bool:
    e = strip(e)
    return isinstance(e, dict) and e.get("k") == "path" and e.get("def") in defs


def lit_value(e: Any, ty: Optional[str] = None):
    """Literal (possibly behind `&`/macro concat)."""
    e = strip(e)
    if isinstance(e, dict) and e.get("k") == "ref":
        e = strip(e["e"])
    if isinstance(e, dict) and e.get("k") == "lit" and (ty is None or e.get("ty") == ty):
        if e.get("ty") == "int":
            v = int(e["v"])
            return -v if e.get("neg") else v
        return e["v"]
    return None


def is_str_lit(e: Any) -> bool:
    e = strip(e)
    return isinstance(e, dict) and e.get("k") == "lit" and e.get("ty") == "str"


DEFAULT_FN = "core::default::Default::default"


def is_default_call(e: Any) -> bool:
    e = strip(e)
    return isinstance(e, dict) and e.get("k") == "call" and is_def(e["f"], DEFAULT_FN) and not e["args"]


def call_of(e: Any) -> Optional[Tuple[dict, List[Any]]]:
    """(callee path node, args) for a call through a path; method calls are returned with the resolved def
    and the receiver as first argument."""
    e = strip(e)
    if not isinstance(e, dict):
        return None
    if e.get("k") == "call":
        f = strip(e["f"])
        if isinstance(f, dict) and f.get("k") == "path":
            return f, list(e["args"])
        return None
    if e.get("k") == "mcall":
        return {"k": "path", "def": e.get("def"), "crate": e.get("crate"), "trait": e.get("trait"), "written": "." + e["name"], "method": True}, [e["recv"]] + list(e["args"])
    return None


class Ctor:
    def __init__(self, adt: str, variant: Optional[str], kind: str, payload: List[Tuple[Optional[str], Any]], node: Any):
        self.adt = adt
        self.variant = variant
        self.kind = kind            # unit | tuple | named
        self.payload = payload      # [(field name | None, expr)]
        self.node = node


def ctor_of(e: Any) -> Optional[Ctor]:
    """Recognise `E::V`, `E::V(a, b)`, `E::V { f: a }` (also struct constructors)."""
    e = strip(e)
    if not isinstance(e, dict):
        return None
    k = e.get("k")
    if k == "path" and str(e.get("dk", "")).startswith("Ctor") and "Const" in e.get("dk", ""):
        return Ctor(e.get("adt"), e.get("variant"), "unit", [], e)
    if k == "call":
        f = strip(e["f"])
        if isinstance(f, dict) and f.get("k") == "path" and str(f.get("dk", "")).startswith("Ctor") and "Fn" in f.get("dk", ""):
            return Ctor(f.get("adt"), f.get("variant"), "tuple", [(None, a) for a in e["args"]], e)
        return None
    if k == "struct":
        p = e["path"]
        if e.get("rest") is not None:
            return None
        if p.get("dk") == "Variant":
            return Ctor(p.get("adt"), p.get("variant"), "named", [(f[0], f[1]) for f in e["fields"]], e)
        if p.get("dk") in ("Struct", "SelfAlias") or (p.get("dk") or "").startswith("Ctor"):
            adt = (e.get("ty") or {}).get("adt") or p.get("def")
            return Ctor(adt, None, "named", [(f[0], f[1]) for f in e["fields"]], e)
        # type alias / Self etc.: use the type of the expression
        adt = (e.get("ty") or {}).get("adt")
        if adt:
            return Ctor(adt, p.get("variant"), "named", [(f[0], f[1]) for f in e["fields"]], e)
    return None


class VPat:
    """A pattern that selects one enum variant."""
    def __init__(self, adt, variant, shape, subs, rest, node):
        self.adt = adt
        self.variant = variant
        self.shape = shape      # unit | tuple | named
        self.subs = subs        # tuple: [pat]; named: [(name, pat)]
        self.rest = rest
        self.node = node


def variant_pat(p: Any) -> Optional[VPat]:
    """`E::V`, `E::V(..)`, `E::V{..}`, optionally behind `&`."""
    while isinstance(p, dict) and p.get("k") in ("pref", "pderef"):
        p = p["pat"]
    if not isinstance(p, dict):
        return None
    k = p.get("k")
    if k == "ppath":
        q = p["path"]
        if q.get("variant"):
            return VPat(q.get("adt"), q["variant"], "unit", [], False, p)
        return None
    if k == "ptuple_struct":
        q = p["path"]
        if q.get("variant"):
            return VPat(q.get("adt"), q["variant"], "tuple", list(p["pats"]), p.get("rest") is not None, p)
        return None
    if k == "pstruct":
        q = p["path"]
        if q.get("variant"):
            return VPat(q.get("adt"), q["variant"], "named", [(f[0], f[1]) for f in p["fields"]], bool(p.get("rest")), p)
        return None
    return None


def pat_alternatives(p: Any) -> List[Any]:
    if isinstance(p, dict) and p.get("k") == "por":
        out = []
        for x in p["pats"]:
            out += pat_alternatives(x)
        return out
    return [p]


def is_wild(p: Any) -> bool:
    return isinstance(p, dict) and (p.get("k") == "wild" or (p.get("k") == "bind" and not p.get("sub")))


def binding(p: Any) -> Optional[dict]:
    while isinstance(p, dict) and p.get("k") in ("pref", "pderef"):
        p = p["pat"]
    if isinstance(p, dict) and p.get("k") == "bind" and not p.get("sub"):
        return p
    return None


def match_on(e: Any) -> Optional[dict]:
    e = strip(e)
    if isinstance(e, dict) and e.get("k") == "match" and e.get("src", "Normal") in ("Normal", "Postfix"):
        return e
    return None


def is_self_scrutinee(e: Any, param: int = 0) -> bool:
    """`self`, `*self`, `&*self` for the receiver parameter."""
    e = strip(e)
    while isinstance(e, dict) and e.get("k") in ("deref", "ref"):
        e = strip(e["e"])
    return is_local(e, param=param)


def walk(e: Any):
    """Yield every dict node of a tree."""
    if isinstance(e, dict):
        yield e
        for v in e.values():
            for x in walk(v):
                yield x
    elif isinstance(e, list):
        for v in e:
            for x in walk(v):
                yield x
