"""Engine W: compile / compile_fail witnesses as cargo example targets (DESIGN.md §6).

Every must-fail witness has a compiling twin that differs only by the offending construct."""
from __future__ import annotations
import hashlib
import json
import os
import re
import shutil
import subprocess
from dataclasses import dataclass, field
from typing import Dict, List, Optional, Tuple

import common

ALL_DERIVES = ["EnumString", "Display", "AsRefStr", "IntoStaticStr", "VariantNames", "EnumIter", "EnumCount", "FromRepr", "VariantArray",
               "EnumDiscriminants", "EnumIs", "EnumTryAs", "EnumMessage", "EnumProperty", "EnumTable", "AsStaticStr", "ToString", "EnumVariantNames"]
UNIT_ONLY = {"VariantArray", "EnumTable"}
# derives whose generator reads #[strum(..)] on variants / on the enum (confirmed against the call graph by props_gen)
VARIANT_ATTR_DERIVES = ["EnumString", "Display", "AsRefStr", "AsStaticStr", "IntoStaticStr", "ToString", "VariantNames", "EnumVariantNames", "EnumIter",
                        "EnumCount", "EnumMessage", "EnumProperty", "EnumTable", "FromRepr", "EnumIs", "EnumTryAs"]
TYPE_ATTR_DERIVES = ["EnumString", "Display", "AsRefStr", "AsStaticStr", "IntoStaticStr", "ToString", "VariantNames", "EnumVariantNames", "EnumIter",
                     "EnumCount", "EnumMessage", "EnumProperty", "EnumDiscriminants", "VariantArray", "FromRepr"]

PRELUDE = """#![allow(dead_code, unused_imports, deprecated, unused_variables)]
use strum::*;
#[derive(Clone, Copy, Debug, PartialEq, Default)]
pub struct Inner;
impl core::fmt::Display for Inner { fn fmt(&self, f: &mut core::fmt::Formatter<'_>) -> core::fmt::Result { f.pad("i") } }
impl AsRef<str> for Inner { fn as_ref(&self) -> &str { "i" } }
impl<'a> From<&'a Inner> for &'static str { fn from(_: &'a Inner) -> &'static str { "i" } }
pub fn dw() -> u8 { 1 }
#[derive(Debug)] pub struct MyErr;
pub fn my_err(_: &str) -> MyErr { MyErr }
fn main() {}
"""


@dataclass
class Witness:
    name: str
    rule: str
    derive: str
    item: str                 # the offending item (must fail)
    twin: str                 # same item without the offending construct (must compile)
    note: str = ""


def _mk(name: str, rule: str, derive: str, item: str, twin: str, note: str = "") -> Witness:
    return Witness(re.sub(r"[^a-z0-9_]", "_", name.lower()), rule, derive, item, twin, note)


def enum_for(derive: str, variants: str, attrs: str = "", generics: str = "", extra_derives: str = "") -> str:
    d = "Clone, Debug, " + derive if derive not in ("EnumTable",) else "Clone, Copy, Debug, " + derive
    return "#[derive(%s%s)]\n%spub enum Wit%s {\n%s\n}\n" % (d, extra_derives, attrs, generics, variants)


def base_variants(derive: str) -> str:
    if derive in UNIT_ONLY:
        return "    Alpha,\n    Beta,"
    return "    Alpha,\n    Beta(u8),"


def build_witnesses(tier: str) -> List[Witness]:
    W: List[Witness] = []
    thorough = tier == "thorough"
    # 1. non-enum
    for d in ALL_DERIVES:
        ok = enum_for(d, base_variants(d))
        W.append(_mk("struct_" + d, "derive applied to a struct", d, "#[derive(%s)]\npub struct Wit { a: u8 }\n" % d, ok))
        if thorough or d in ("EnumString", "Display", "EnumIter", "EnumDiscriminants", "EnumTable", "EnumIs"):
            W.append(_mk("union_" + d, "derive applied to a union", d, "#[derive(%s)]\npub union Wit { a: u8, b: u16 }\n" % d, ok))
        if thorough or d in ("VariantNames", "FromRepr", "EnumMessage"):
            W.append(_mk("tuplestruct_" + d, "derive applied to a struct", d, "#[derive(%s)]\npub struct Wit(u8);\n" % d, ok))
    # 2. data-carrying variant
    for d in ("VariantArray", "EnumTable"):
        for nm, bad in (("tuple", "    Alpha,\n    Beta(u8),"), ("named", "    Alpha,\n    Beta { x: u8 },"), ("empty_tuple", "    Alpha,\n    Beta(),")):
            W.append(_mk("data_%s_%s" % (nm, d), "data-carrying variant", d, enum_for(d, bad), enum_for(d, "    Alpha,\n    Beta,")))
    # 3. lifetime parameter
    for d in ("EnumIter", "FromRepr", "EnumTable"):
        if d == "EnumTable":
            # (an unused lifetime also earns rustc's E0392; the macro's own error is what is checked)
            bad = "#[derive(Clone, Copy, Debug, EnumTable)]\npub enum Wit<'a> {\n    Alpha,\n    Beta,\n}\n"
            ok = "#[derive(Clone, Copy, Debug, EnumTable)]\npub enum Wit {\n    Alpha,\n    Beta,\n}\n"
        else:
            bad = "#[derive(Clone, Debug, %s)]\npub enum Wit<'a> {\n    Alpha,\n    Beta(core::marker::PhantomData<&'a u8>),\n}\n" % d
            ok = "#[derive(Clone, Debug, %s)]\npub enum Wit {\n    Alpha,\n    Beta(core::marker::PhantomData<u8>),\n}\n" % d
        W.append(_mk("lifetime_" + d, "lifetime parameter", d, bad, ok))
    # 4. repeated variant-level single-use attribute
    vkeys = {
        "message": ('message = "m"', "unit"), "detailed_message": ('detailed_message = "m"', "unit"), "to_string": ('to_string = "t"', "unit"),
        "disabled": ("disabled", "unit"), "ascii_case_insensitive": ("ascii_case_insensitive", "unit"),
        "transparent": ("transparent", "inner"), "default": ("default", "string"), "default_with": ('default_with = "dw"', "u8"),
    }
    k = 0
    for key, (meta, shape) in vkeys.items():
        for d in VARIANT_ATTR_DERIVES:
            if shape != "unit" and d in UNIT_ONLY:
                continue
            # keep the twin compilable: the attribute must be acceptable to the derive once
            if key == "transparent" and d in ("EnumString", "ToString", "VariantNames", "EnumVariantNames", "EnumIter", "EnumCount", "EnumMessage", "EnumProperty", "FromRepr", "EnumIs", "EnumTryAs"):
                pass
            if key == "default" and d in ("AsRefStr", "AsStaticStr", "IntoStaticStr"):
                pass
            k += 1
            for form in ("same_attr", "two_attrs"):
                if not thorough and (k + (0 if form == "same_attr" else 1)) % 3 != 0 and not (d in ("EnumIs", "EnumTryAs", "FromRepr", "EnumString") and form == "same_attr" and key in ("disabled", "message", "to_string")):
                    continue
                field_ = {"unit": "", "inner": "(Inner)", "string": "(String)", "u8": "(u8)"}[shape]
                if form == "same_attr":
                    attr = "    #[strum(%s, %s)]\n" % (meta, meta)
                else:
                    attr = "    #[strum(%s)]\n    #[strum(%s)]\n" % (meta, meta)
                other = "    Other,"
                bad = enum_for(d, "%s    Alpha%s,\n%s" % (attr, field_, other))
                ok = enum_for(d, "    #[strum(%s)]\n    Alpha%s,\n%s" % (meta, field_, other))
                W.append(_mk("rep_%s_%s_%s" % (key, form, d), "repeated single-use variant attribute `%s`" % key, d, bad, ok))
    # 5. repeated enum-level single-use attribute
    ekeys = {
        "serialize_all": 'serialize_all = "snake_case"', "ascii_case_insensitive": "ascii_case_insensitive", "prefix": 'prefix = "p"',
        "crate": 'crate = "::strum"', "const_into_str": "const_into_str", "parse_err_ty": None, "parse_err_fn": None, "use_phf": "use_phf",
    }
    k = 0
    for key, meta in ekeys.items():
        for d in TYPE_ATTR_DERIVES:
            k += 1
            if key in ("parse_err_ty", "parse_err_fn"):
                if d != "EnumString":
                    continue
                both = "parse_err_ty = MyErr, parse_err_fn = my_err"
                dup = "parse_err_ty = MyErr" if key == "parse_err_ty" else "parse_err_fn = my_err"
                bad = enum_for(d, base_variants(d), "#[strum(%s, %s)]\n" % (both, dup))
                ok = enum_for(d, base_variants(d), "#[strum(%s)]\n" % both)
                W.append(_mk("rep_enum_%s_%s" % (key, d), "repeated single-use enum attribute `%s`" % key, d, bad, ok))
                continue
            if key == "use_phf":
                continue  # needs the phf feature; covered by the corpus build
            if not thorough and k % 3 != 0 and not (d in ("FromRepr", "EnumString") and key in ("serialize_all", "prefix")):
                continue
            for form in (("same_attr", "two_attrs") if thorough else ("same_attr",) if k % 2 else ("two_attrs",)):
                attr = "#[strum(%s, %s)]\n" % (meta, meta) if form == "same_attr" else "#[strum(%s)]\n#[strum(%s)]\n" % (meta, meta)
                bad = enum_for(d, base_variants(d), attr)
                ok = enum_for(d, base_variants(d), "#[strum(%s)]\n" % meta)
                W.append(_mk("rep_enum_%s_%s_%s" % (key, form, d), "repeated single-use enum attribute `%s`" % key, d, bad, ok))
    for key, meta in (("name", "name(Kind)"), ("vis", "vis(pub)")):
        bad = enum_for("EnumDiscriminants", base_variants("EnumDiscriminants"), "#[strum_discriminants(%s, %s)]\n" % (meta, meta))
        ok = enum_for("EnumDiscriminants", base_variants("EnumDiscriminants"), "#[strum_discriminants(%s)]\n" % meta)
        W.append(_mk("rep_disc_%s" % key, "repeated single-use strum_discriminants attribute `%s`" % key, "EnumDiscriminants", bad, ok))
    # 6. repeated field-level default_with
    W.append(_mk("rep_field_default_with", "repeated single-use field attribute `default_with`", "EnumString",
                 enum_for("EnumString", '    Alpha { #[strum(default_with = "dw", default_with = "dw")] x: u8 },\n    Beta,'),
                 enum_for("EnumString", '    Alpha { #[strum(default_with = "dw")] x: u8 },\n    Beta,')))
    # 7. two default variants
    W.append(_mk("two_defaults", "two default variants", "EnumString",
                 enum_for("EnumString", "    #[strum(default)]\n    Alpha(String),\n    #[strum(default)]\n    Beta(String),"),
                 enum_for("EnumString", "    #[strum(default)]\n    Alpha(String),\n    Beta(String),")))
    for nm_, a_, b_ in [("named_then_tuple", "Alpha { raw: String }", "Beta(String)"), ("tuple_then_named", "Alpha(String)", "Beta { raw: String }"),
                        ("named_then_named", "Alpha { raw: String }", "Beta { other: String }")]:
        W.append(_mk("two_defaults_" + nm_, "two default variants", "EnumString",
                     enum_for("EnumString", "    #[strum(default)]\n    %s,\n    #[strum(default)]\n    %s," % (a_, b_)),
                     enum_for("EnumString", "    #[strum(default)]\n    %s,\n    %s," % (a_, b_))))
    W.append(_mk("two_defaults_apart", "two default variants", "EnumString",
                 enum_for("EnumString", "    #[strum(default)]\n    Alpha(String),\n    Gamma,\n    #[strum(disabled)]\n    Delta,\n    #[strum(default)]\n    Beta(String),"),
                 enum_for("EnumString", "    #[strum(default)]\n    Alpha(String),\n    Gamma,\n    #[strum(disabled)]\n    Delta,\n    Beta(String),")))
    # 8. default on a variant without exactly one field
    for d in ("EnumString", "Display", "ToString"):
        for nm, f_ in (("unit", ""), ("tuple2", "(String, String)"), ("named2", " { a: String, b: String }"), ("tuple0", "()")):
            if d == "ToString" and nm == "named2":
                pass
            W.append(_mk("default_%s_%s" % (nm, d), "default on a variant without exactly one field", d,
                         enum_for(d, "    #[strum(default)]\n    Alpha%s,\n    Beta," % f_), enum_for(d, "    #[strum(default)]\n    Alpha(String),\n    Beta,")))
    # 9. transparent on a variant without exactly one field
    for d in ("Display", "AsRefStr", "AsStaticStr", "IntoStaticStr"):
        for nm, f_ in (("unit", ""), ("tuple2", "(Inner, Inner)"), ("named2", " { a: Inner, b: Inner }")):
            W.append(_mk("transparent_%s_%s" % (nm, d), "transparent on a variant without exactly one field", d,
                         enum_for(d, "    #[strum(transparent)]\n    Alpha%s,\n    Beta," % f_), enum_for(d, "    #[strum(transparent)]\n    Alpha(Inner),\n    Beta,")))
    # 10. placeholders on a unit variant
    for nm, lit in (("index", "x{0}"), ("name", "x{a}"), ("spec", "{0:>4}"),
                    # text of more than one byte per character around the placeholder (offsets are byte offsets)
                    ("utf8_quotes", "\u201c{0}\u201d"), ("utf8_prefix", "\u6e29\u5ea6{t}"), ("utf8_suffix", "{0}\u00e9\u00e9"), ("utf8_both", "\u2192{x}\u2190 \u00df{0:>3}")):
        W.append(_mk("placeholder_unit_" + nm, "placeholders on a unit variant", "Display",
                     enum_for("Display", '    #[strum(to_string = "%s")]\n    Alpha,\n    Beta,' % lit), enum_for("Display", '    #[strum(to_string = "x{{0}}")]\n    Alpha,\n    Beta,')))
    # 11. unknown serialize_all style
    for i, d in enumerate(TYPE_ATTR_DERIVES):
        if not thorough and d not in ("EnumString", "Display", "VariantNames", "FromRepr", "EnumMessage", "IntoStaticStr"):
            continue
        for st in (("Snake_Case", "pascalcase", "") if thorough else ("Snake_Case",)):
            W.append(_mk("unknown_style_%s_%s" % (st or "empty", d), "unknown serialize_all style", d,
                         enum_for(d, base_variants(d), '#[strum(serialize_all = "%s")]\n' % st), enum_for(d, base_variants(d), '#[strum(serialize_all = "snake_case")]\n')))
    # 11b. near-misses of documented styles (wrong separator) are unknown styles too
    for st in ("snake-case", "SCREAMING-SNAKE-CASE", "title-case", "Train_Case", "SCREAMING_KEBAB_CASE", "camel-case", "Pascal_Case", "lower_case"):
        d = ["Display", "EnumString", "AsRefStr", "VariantNames"][len(st) % 4]
        W.append(_mk("near_miss_style_%s_%s" % (st, d), "unknown serialize_all style", d,
                     enum_for(d, base_variants(d), '#[strum(serialize_all = "%s")]\n' % st), enum_for(d, base_variants(d), '#[strum(serialize_all = "snake_case")]\n'), "separator near-miss"))
    # 3b. lifetime parameter used only by a disabled variant
    for d in ("EnumIter", "FromRepr"):
        bad = "#[derive(Clone, Debug, %s)]\npub enum Wit<'a> {\n    Alpha,\n    Beta,\n    #[strum(disabled)]\n    Word(&'a str),\n}\n" % d
        ok = "#[derive(Clone, Debug, %s)]\npub enum Wit {\n    Alpha,\n    Beta,\n    #[strum(disabled)]\n    Word(&'static str),\n}\n" % d
        W.append(_mk("lifetime_disabled_only_" + d, "lifetime parameter", d, bad, ok, "the lifetime is used only by a disabled variant"))
    # 12. only one of parse_err_ty / parse_err_fn
    both = enum_for("EnumString", base_variants("EnumString"), "#[strum(parse_err_ty = MyErr, parse_err_fn = my_err)]\n")
    W.append(_mk("lone_parse_err_ty", "only one of parse_err_ty / parse_err_fn", "EnumString", enum_for("EnumString", base_variants("EnumString"), "#[strum(parse_err_ty = MyErr)]\n"), both))
    W.append(_mk("lone_parse_err_fn", "only one of parse_err_ty / parse_err_fn", "EnumString", enum_for("EnumString", base_variants("EnumString"), "#[strum(parse_err_fn = my_err)]\n"), both))
    dflt = "    Alpha,\n    #[strum(default)]\n    Other(String),"
    both_d = enum_for("EnumString", dflt, "#[strum(parse_err_ty = MyErr, parse_err_fn = my_err)]\n")
    W.append(_mk("lone_parse_err_ty_with_default", "only one of parse_err_ty / parse_err_fn", "EnumString", enum_for("EnumString", dflt, "#[strum(parse_err_ty = MyErr)]\n"), both_d, "with a default variant"))
    W.append(_mk("lone_parse_err_fn_with_default", "only one of parse_err_ty / parse_err_fn", "EnumString", enum_for("EnumString", dflt, "#[strum(parse_err_fn = my_err)]\n"), both_d, "with a default variant"))
    # 10b. placeholders that reach a unit variant's name through serialize (no to_string)
    W.append(_mk("placeholder_unit_serialize", "placeholders on a unit variant", "Display",
                 enum_for("Display", '    #[strum(serialize = "point at {x}")]\n    Alpha,\n    Beta(u8),'), enum_for("Display", '    #[strum(serialize = "point at x")]\n    Alpha,\n    Beta(u8),'), "via serialize"))
    W.append(_mk("placeholder_unit_serialize_longest", "placeholders on a unit variant", "Display",
                 enum_for("Display", '    #[strum(serialize = "p", serialize = "long {0} name")]\n    Alpha,\n    Beta,'), enum_for("Display", '    #[strum(serialize = "p", serialize = "long name")]\n    Alpha,\n    Beta,'), "via the longest serialize"))
    # 13. unsupported property literal
    for nm, lit in (("float", "1.5"), ("char", "'c'"), ("byte", "b'x'"), ("bytestr", 'b"xy"')):
        W.append(_mk("prop_literal_" + nm, "unsupported property literal", "EnumProperty",
                     enum_for("EnumProperty", "    #[strum(props(a = %s))]\n    Alpha,\n    Beta," % lit), enum_for("EnumProperty", '    #[strum(props(a = "s", b = 2, c = true))]\n    Alpha,\n    Beta,')))
    # unique names
    seen = {}
    for w in W:
        if w.name in seen:
            raise AssertionError("duplicate witness " + w.name)
        seen[w.name] = w
    return W


@dataclass
class Outcome:
    witness: Witness
    which: str                 # 'fail' | 'twin'
    errors: List[dict]
    verdict: str               # ok | accepted | panicked | rustc-error-only | wrong-location | twin-fails
    detail: str = ""


def check_targets(label: str, targets: Dict[str, str], features: str = '"derive"') -> Tuple[Dict[str, List[dict]], set]:
    """Type-check a set of small programs (cargo example targets) against REPO's strum; returns (error diagnostics per target, targets built)."""
    from corpus import write_if_changed
    key = hashlib.sha256(("%s|%s|t1" % (common.REPO, label)).encode()).hexdigest()[:10]
    root = os.path.join(common.WORK, "witness-%s-%s" % (label, key))
    with common.Lock("witness-%s-%s" % (label, key)):
        ex = os.path.join(root, "examples")
        os.makedirs(ex, exist_ok=True)
        for name, src in targets.items():
            write_if_changed(os.path.join(ex, name + ".rs"), src)
        for fn in os.listdir(ex):
            if fn[:-3] not in targets:
                os.remove(os.path.join(ex, fn))
        write_if_changed(os.path.join(root, "Cargo.toml"),
                         "[package]\nname = \"wit\"\nversion = \"0.0.0\"\nedition = \"2021\"\n\n[workspace]\n\n[dependencies]\nstrum = { path = \"%s/strum\", features = [%s] }\n" % (common.REPO, features))
        write_if_changed(os.path.join(root, "src", "lib.rs"), "")
        lock_src = os.path.join(common.REPO, "Cargo.lock")
        if not os.path.exists(os.path.join(root, "Cargo.lock")) and os.path.exists(lock_src):
            shutil.copy(lock_src, os.path.join(root, "Cargo.lock"))
        env = common.cargo_env({"CARGO_TARGET_DIR": os.path.join(root, "target"), "RUSTFLAGS": "-Awarnings"})
        r = subprocess.run(["cargo", "+nightly", "check", "--offline", "--examples", "--keep-going", "--message-format=json"], cwd=root, env=env,
                           stdout=subprocess.PIPE, stderr=subprocess.PIPE, text=True)
        diags: Dict[str, List[dict]] = {}
        built = set()
        for line in r.stdout.splitlines():
            if not line.startswith("{"):
                continue
            try:
                m = json.loads(line)
            except ValueError:
                continue
            tgt = (m.get("target") or {}).get("name")
            if m.get("reason") == "compiler-message" and tgt:
                d = m["message"]
                if d.get("level") == "error" and not str(d.get("message", "")).startswith("aborting due to"):
                    diags.setdefault(tgt, []).append(d)
            elif m.get("reason") == "compiler-artifact" and tgt:
                built.add(tgt)
        if "wit" not in built:
            raise common.ToolError("witness crate: strum did not build:\n" + r.stderr[-3000:])
        common.touch_used(root)
        common.gc_work([root], prefixes=("witness-",))
    return diags, built


def run_witnesses(tier: str) -> Tuple[List[Outcome], dict]:
    ws = build_witnesses(tier)
    key = hashlib.sha256(("%s|%s|w3" % (common.REPO, tier)).encode()).hexdigest()[:10]
    root = os.path.join(common.WORK, "witness-%s-%s" % (tier, key))
    with common.Lock("witness-%s-%s" % (tier, key)):
        ex = os.path.join(root, "examples")
        os.makedirs(ex, exist_ok=True)
        wanted = set()
        line_ranges: Dict[str, Tuple[int, int]] = {}
        pre_lines = PRELUDE.count("\n")
        for w in ws:
            for which, item in (("fail", w.item), ("twin", w.twin)):
                fn = "%s__%s.rs" % (w.name, which)
                wanted.add(fn)
                from corpus import write_if_changed
                write_if_changed(os.path.join(ex, fn), PRELUDE + item)
                line_ranges[fn[:-3]] = (pre_lines + 1, pre_lines + item.count("\n") + 1)
        for fn in os.listdir(ex):
            if fn not in wanted:
                os.remove(os.path.join(ex, fn))
        from corpus import write_if_changed
        write_if_changed(os.path.join(root, "Cargo.toml"),
                         "[package]\nname = \"wit\"\nversion = \"0.0.0\"\nedition = \"2021\"\n\n[workspace]\n\n[dependencies]\nstrum = { path = \"%s/strum\", features = [\"derive\"] }\n" % common.REPO)
        write_if_changed(os.path.join(root, "src", "lib.rs"), "")
        lock_src = os.path.join(common.REPO, "Cargo.lock")
        if not os.path.exists(os.path.join(root, "Cargo.lock")) and os.path.exists(lock_src):
            shutil.copy(lock_src, os.path.join(root, "Cargo.lock"))
        env = common.cargo_env({"CARGO_TARGET_DIR": os.path.join(root, "target"), "RUSTFLAGS": "-Awarnings"})
        r = subprocess.run(["cargo", "+nightly", "check", "--offline", "--examples", "--keep-going", "--message-format=json"], cwd=root, env=env,
                           stdout=subprocess.PIPE, stderr=subprocess.PIPE, text=True)
        diags: Dict[str, List[dict]] = {}
        built = set()
        for line in r.stdout.splitlines():
            if not line.startswith("{"):
                continue
            try:
                m = json.loads(line)
            except ValueError:
                continue
            tgt = (m.get("target") or {}).get("name")
            if m.get("reason") == "compiler-message" and tgt:
                d = m["message"]
                if d.get("level") == "error":
                    diags.setdefault(tgt, []).append(d)
            elif m.get("reason") == "compiler-artifact" and tgt:
                built.add(tgt)
        if not built and not diags:
            raise common.ToolError("witness crate could not be checked:\n" + r.stderr[-3000:])
        # the library dependency chain must have built, otherwise nothing is attributable
        if "wit" not in built and not any(t.endswith("__twin") for t in built):
            raise common.ToolError("witness crate: strum did not build:\n" + r.stderr[-3000:])
        common.touch_used(root)
        common.gc_work([root], prefixes=("witness-",))
    outs: List[Outcome] = []
    for w in ws:
        # must-fail side
        t = w.name + "__fail"
        errs = [d for d in diags.get(t, []) if not str(d.get("message", "")).startswith("aborting due to")]
        lo, hi = line_ranges[t]
        verdict, detail = "ok", ""
        if not errs:
            verdict = "accepted" if t in built else "not-built"
            detail = "the item compiled without any error"
        else:
            text = " | ".join((d.get("message") or "") + " " + " ".join(c.get("message", "") for c in d.get("children", [])) for d in errs)
            macro_errs = [d for d in errs if not d.get("code")]
            if "panicked" in text:
                verdict, detail = "panicked", text[:300]
            elif not macro_errs:
                verdict, detail = "rustc-error-only", text[:300]
            else:
                located = False
                for d in macro_errs:
                    for sp in d.get("spans", []):
                        s2 = sp
                        # walk out of macro expansions to the witness file
                        guard = 0
                        while s2 and not str(s2.get("file_name", "")).endswith(t + ".rs") and s2.get("expansion") and guard < 10:
                            s2 = s2["expansion"].get("span")
                            guard += 1
                        if s2 and str(s2.get("file_name", "")).endswith(t + ".rs") and lo <= s2.get("line_start", 0) <= hi:
                            located = True
                if not located:
                    verdict, detail = "wrong-location", "no error span inside the offending item (lines %d-%d): %s" % (lo, hi, text[:200])
                else:
                    detail = (macro_errs[0].get("message") or "")[:160]
        outs.append(Outcome(w, "fail", errs, verdict, detail))
        t2 = w.name + "__twin"
        errs2 = [d for d in diags.get(t2, []) if not str(d.get("message", "")).startswith("aborting due to")]
        if errs2:
            outs.append(Outcome(w, "twin", errs2, "twin-fails", " | ".join(d.get("message", "") for d in errs2)[:300]))
        else:
            outs.append(Outcome(w, "twin", [], "ok"))
    stats = {"witnesses": len(ws), "targets": 2 * len(ws), "root": root}
    return outs, stats
