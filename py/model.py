"""Join the per-crate facts into per-enum records: definition (AST), compiler semantics, generated items
grouped by the derive expansion that produced them."""
from __future__ import annotations
from dataclasses import dataclass, field
from typing import Dict, List, Optional
import spec as S


@dataclass
class DeriveGroup:
    derive: str
    expn: str
    items: List[dict]
    chain: List[str]

    def impls(self, trait_suffix: Optional[str] = None, inherent: bool = False) -> List[dict]:
        out = []
        for it in self.items:
            if it["item"] != "impl":
                continue
            tr = it.get("trait")
            if inherent:
                if tr is None:
                    out.append(it)
            elif trait_suffix is None or (tr and (tr["path"] == trait_suffix or tr["path"].endswith("::" + trait_suffix))):
                if tr is not None:
                    out.append(it)
        return out

    def adts(self) -> List[dict]:
        return [it for it in self.items if it["item"] in ("struct", "enum", "union")]


@dataclass
class EnumInfo:
    crate: str
    stem: str
    origin: str
    adt: dict                       # AST facts
    sem: Optional[dict]             # compiler facts
    spec: Optional[S.EnumSpec]
    skip_reason: Optional[str]
    groups: Dict[str, List[DeriveGroup]] = field(default_factory=dict)
    unit: Optional[dict] = None     # the whole crate fact file (for cross references)

    @property
    def name(self) -> str:
        return self.adt["name"]

    @property
    def def_path(self) -> str:
        return self.adt.get("def") or self.adt["name"]

    def where(self) -> str:
        return "%s (%s) [%s]" % (self.def_path, self.adt["ident_span"], self.crate)

    def group(self, derive: str) -> Optional[DeriveGroup]:
        g = self.groups.get(derive)
        return g[0] if g else None

    def sem_variant(self, name: str) -> Optional[dict]:
        if not self.sem:
            return None
        for v in self.sem.get("variants", []):
            if v["name"] == name:
                return v
        return None


def fn_of(impl: dict, name: str) -> Optional[dict]:
    for a in impl.get("assoc", []):
        if a["name"] == name and a["kind"] == "fn":
            return a
    return None


def assoc_of(impl: dict, name: str, kind: str) -> Optional[dict]:
    for a in impl.get("assoc", []):
        if a["name"] == name and a["kind"] == kind:
            return a
    return None


def _cand_adts(it: dict) -> List[str]:
    out = []
    st = it.get("self_ty") or {}
    if st.get("adt"):
        out.append(st["adt"])
    tr = it.get("trait")
    if tr:
        for a in tr.get("args", []):
            if a.get("adt"):
                out.append(a["adt"])
    return out


def build(units: List[dict]) -> List[EnumInfo]:
    infos: List[EnumInfo] = []
    for u in units:
        adts_by_def = {}
        for a in u.get("adts", []):
            if a.get("def"):
                adts_by_def[a["def"]] = a
        sem_by_def = {s["def"]: s for s in u.get("adt_sem", [])}
        # group generated items by expansion
        groups: Dict[str, DeriveGroup] = {}
        for it in u.get("generated", []):
            key = it.get("expn") or it["span"]
            g = groups.get(key)
            if g is None:
                g = DeriveGroup(it["derive"], key, [], it.get("strum_chain", []))
                groups[key] = g
            g.items.append(it)
        per_enum: Dict[str, EnumInfo] = {}
        for d, a in adts_by_def.items():
            if a["kind"] != "enum":
                continue
            try:
                sp = S.parse_enum(a)
                reason = None
            except S.Unmodelled as e:
                sp = None
                reason = str(e)
            info = EnumInfo(u["crate"], u.get("_stem", u["crate"]), u.get("_origin", "?"), a, sem_by_def.get(d), sp, reason, unit=u)
            per_enum[d] = info
        for g in groups.values():
            own = set(it["def"] for it in g.adts())
            owner = None
            for it in g.items:
                if it["item"] != "impl":
                    continue
                for c in _cand_adts(it):
                    if c in per_enum and c not in own:
                        owner = c
                        break
                if owner:
                    break
            if owner is None:
                continue
            per_enum[owner].groups.setdefault(g.derive, []).append(g)
        infos.extend(per_enum.values())
    return infos


def dedup(infos: List[EnumInfo]) -> List[EnumInfo]:
    """The same library enum is compiled in several units (lib, test harness); keep one per (crate, def, span)."""
    seen = set()
    out = []
    for i in infos:
        k = (i.crate, i.def_path, i.adt["ident_span"], tuple(sorted(i.groups)))
        if k in seen:
            continue
        seen.add(k)
        out.append(i)
    return out
