"""Validators for the table-shaped derives: C04, C06, C08, C09, C10, C13, C14, C15."""
from __future__ import annotations
import re
from typing import Any, Dict, List, Optional, Tuple
import shapes as H
import tables as T
import spec as S
from shapes import Unrecognised
from model import EnumInfo, DeriveGroup, fn_of, assoc_of
from common import Violation
from props_strings import where, unrec, vclass, NameTables, message_tables, GEN_FN

GEN_FN.update({
    "EnumIter": "strum_macros::macros::enum_iter::enum_iter_inner",
    "EnumCount": "strum_macros::macros::enum_count::enum_count_inner",
    "FromRepr": "strum_macros::macros::from_repr::from_repr_inner",
    "VariantArray": "strum_macros::macros::enum_variant_array::static_variants_array_inner",
    "EnumDiscriminants": "strum_macros::macros::enum_discriminants::enum_discriminants_inner",
    "EnumTable": "strum_macros::macros::enum_table::enum_table_inner",
    "EnumIs": "strum_macros::macros::enum_is::enum_is_inner",
    "EnumTryAs": "strum_macros::macros::enum_try_as::enum_try_as_inner",
    "EnumProperty": "strum_macros::macros::enum_properties::enum_properties_inner",
})


def placement_class(es: S.EnumSpec) -> str:
    """Where the disabled variants sit (first/middle/last/adjacent/all/none)."""
    n = len(es.variants)
    dis = [v.index for v in es.variants if v.disabled]
    if not dis:
        return "none"
    if len(dis) == n:
        return "all"
    parts = []
    if 0 in dis:
        parts.append("first")
    if n - 1 in dis:
        parts.append("last")
    if any(0 < d < n - 1 for d in dis):
        parts.append("middle")
    if any(d + 1 in dis for d in dis):
        parts.append("adjacent")
    return "+".join(parts)


def payload_all_default(c: H.Ctor) -> bool:
    return all(H.is_default_call(e) for _n, e in c.payload)


def ctor_matches_variant(c: H.Ctor, info: EnumInfo, v: S.VariantSpec) -> bool:
    if c.adt != info.def_path or c.variant != v.name:
        return False
    if v.kind == "unit":
        return c.kind == "unit"
    if len(c.payload) != len(v.fields):
        return False
    if v.kind == "named":
        return set(n for n, _ in c.payload) == set(f.name for f in v.fields)
    return True


# ------------------------------------------------------------------------------------------------
# EnumIter tables
# ------------------------------------------------------------------------------------------------

class IterTable:
    def __init__(self, info: EnumInfo, g: DeriveGroup):
        self.info = info
        self.g = g
        structs = [it for it in g.items if it["item"] == "struct"]
        if len(structs) != 1:
            raise Unrecognised("expected exactly one generated iterator struct, found %d" % len(structs))
        self.struct = structs[0]
        self.iter_def = self.struct["def"]
        get = None
        for imp in g.impls(inherent=True):
            if (imp["self_ty"].get("adt") == self.iter_def) and fn_of(imp, "get"):
                get = fn_of(imp, "get")
        self.get_fn = get
        self.entries: List[Tuple[int, H.Ctor]] = []
        self.methods: Dict[str, dict] = {}
        for imp in g.items:
            if imp["item"] == "fn" and imp.get("body"):
                # free helper fn of the derive (e.g. inside a `const _: () = { .. }` wrapper)
                self.methods.setdefault(imp["name"], imp)
                continue
            if imp["item"] != "impl":
                continue
            for a in imp.get("assoc", []):
                if a["kind"] == "fn":
                    self.methods[a["name"]] = a
        self.traits = sorted(set((imp["trait"]["path"]) for imp in g.items if imp["item"] == "impl" and imp.get("trait") and imp["self_ty"].get("adt") == self.iter_def))
        ie = [imp for imp in g.impls("IntoEnumIterator")]
        self.into_iter = ie[0] if ie else None
        if get is None:
            # lookup through another shape is not modelled
            raise Unrecognised("iterator has no index -> variant table fn (`get`)")
        try:
            self._shape(get)
        except Unrecognised as e1:
            self.entries = []
            try:
                self._tree(get)
            except Unrecognised as e2:
                raise Unrecognised("%s [decision-tree normaliser: %s]" % (e1, e2), getattr(e1, "node", None))

    def _tree(self, get: dict):
        """index -> variant table of any shape the normaliser understands (T.int_table_tree)."""
        nparams = len(get["body"]["params"])
        rows, others = T.int_table_tree(get, nparams - 1, T.group_fns(self.g, self.info), lo=0)
        for k, v in rows:
            co = H.call_of(v)
            if co and co[0].get("def") == T.SOME and len(co[1]) == 1 and H.ctor_of(co[1][0]) is not None:
                self.entries.append((k, H.ctor_of(co[1][0])))
            elif isinstance(H.strip(v), dict) and H.strip(v).get("k") == "path" and H.strip(v).get("def") == T.NONE:
                continue
            else:
                raise Unrecognised("index table yields something other than Some(variant) / None for %d: %s" % (k, H.brief(v, 80)), v)
        self.wild_none = all(isinstance(H.strip(v), dict) and H.strip(v).get("k") == "path" and H.strip(v).get("def") == T.NONE for _k, v in others)

    def _shape(self, get: dict):
        stmts, tail = H.tail_of_body(get["body"]["tree"])
        m = H.match_on(tail)
        if m is None or stmts:
            raise Unrecognised("index table is not a match: " + H.brief(tail), tail)
        # the scrutinee is the index parameter (last parameter)
        nparams = len(get["body"]["params"])
        if not H.is_local(m["scrut"], param=nparams - 1):
            raise Unrecognised("index table does not match on its index parameter", m)
        self.wild_none = False
        for arm in m["arms"]:
            p = arm["pat"]
            if H.is_wild(p) and arm.get("guard") is None:
                b = H.strip(arm["body"])
                self.wild_none = isinstance(b, dict) and b.get("k") == "path" and b.get("def") == T.NONE
                break
            if arm.get("guard") is not None:
                raise Unrecognised("guard in index table", arm)
            for alt in H.pat_alternatives(p):
                if alt.get("k") != "plit" or alt["lit"].get("ty") != "int":
                    raise Unrecognised("index table key is not an integer literal", arm)
                k = H.lit_value(alt["lit"], "int")
                co = H.call_of(arm["body"])
                if not (co and co[0].get("def") == T.SOME and len(co[1]) == 1):
                    raise Unrecognised("index table arm is not Some(..)", arm)
                c = H.ctor_of(co[1][0])
                if c is None:
                    raise Unrecognised("index table arm does not construct a variant", arm)
                self.entries.append((k, c))

    def cursor_literals(self) -> Dict[str, List[int]]:
        out = {}
        for name in ("nth", "next_back", "size_hint", "next", "len"):
            f = self.methods.get(name)
            if not f:
                continue
            lits = []
            # the method and the derive's own helper fns it calls (bounded)
            bodies = [f["body"]["tree"]]
            by_def = {m.get("def"): m for m in self.methods.values() if m.get("def")}
            seen_defs = {f.get("def")}
            for _round in range(3):
                for b_ in list(bodies):
                    for n in H.walk(b_):
                        d_ = None
                        if n.get("k") == "mcall":
                            d_ = n.get("impl_def") or n.get("def")
                        elif n.get("k") == "call":
                            fp_ = H.strip(n.get("f"))
                            d_ = (fp_.get("impl_def") or fp_.get("def")) if isinstance(fp_, dict) else None
                        if d_ in by_def and d_ not in seen_defs and by_def[d_].get("name") not in ("nth", "next", "next_back", "size_hint", "len", "get"):
                            seen_defs.add(d_)
                            bodies.append(by_def[d_]["body"]["tree"])
            for n in (x for b_ in bodies for x in H.walk(b_)):
                if n.get("k") == "lit" and n.get("ty") == "int":
                    lits.append(int(n["v"]))
                elif n.get("k") == "path" and str(n.get("dk", "")).startswith("Const") and n.get("value") is not None:
                    # a named constant of the derive's own output (`const VARIANT_COUNT: usize = N;`)
                    try:
                        lits.append(int(n["value"]))
                    except (TypeError, ValueError):
                        pass
            out[name] = lits
        return out


def count_value(info: EnumInfo) -> Optional[int]:
    g = info.group("EnumCount")
    if not g:
        return None
    imps = g.impls("EnumCount")
    if len(imps) != 1:
        raise Unrecognised("expected one EnumCount impl")
    c = assoc_of(imps[0], "COUNT", "const")
    if c is None:
        raise Unrecognised("EnumCount impl lacks COUNT")
    if c.get("value") is not None:
        return int(c["value"])
    v = H.lit_value(c["body"]["tree"], "int") if "body" in c else None
    if v is None:
        raise Unrecognised("COUNT is not a compile-time integer")
    return v


def C04(infos: List[EnumInfo], ctx: dict):
    out: List[Violation] = []
    programs = 0
    rows = 0
    classes = set()
    samples = []
    skipped = []
    for info in infos:
        g = info.group("EnumIter")
        if not g:
            continue
        if info.spec is None:
            skipped.append({"enum": info.where(), "reason": info.skip_reason})
            continue
        es = info.spec
        try:
            it = IterTable(info, g)
        except Unrecognised as e:
            out.append(unrec("C04", info, "EnumIter", e))
            continue
        programs += 1
        en = es.enabled()
        n = len(en)
        pc = placement_class(es)
        classes.add("n=%d/%s/%s" % (min(n, 9), pc, "data" if any(v.kind != "unit" for v in es.variants) else "unit"))
        keys = [k for k, _ in it.entries]
        if keys != list(range(len(keys))) and sorted(keys) != list(range(len(keys))):
            out.append(Violation("C04", "the index table is dense: keys are exactly 0..n", "C04:index-hole:%s" % pc, "index keys are %s" % keys, where(info, "EnumIter", {"placement": pc})))
        if len(keys) != n:
            out.append(Violation("C04", "one index per enabled variant", "C04:table-size:%s" % pc, "%d indices for %d enabled variants" % (len(keys), n), where(info, "EnumIter", {"placement": pc})))
        if not it.wild_none:
            out.append(Violation("C04", "indices beyond the table yield None", "C04:wild-not-none", "wildcard arm of the index table is not None", where(info, "EnumIter")))
        table = dict(it.entries)
        for k, v in enumerate(en):
            rows += 1
            c = table.get(k)
            if c is None:
                continue
            if not ctor_matches_variant(c, info, v):
                wrong = c.variant
                bv = {x.name: x for x in es.variants}.get(wrong)
                cause = "disabled-yielded" if (bv and bv.disabled) else "order"
                out.append(Violation("C04", "index k constructs the k-th enabled variant in declaration order", "C04:wrong-variant:%s:%s" % (cause, pc),
                                     "index %d constructs %s, expected %s" % (k, wrong, v.name), where(info, "EnumIter", {"index": k, "found": wrong, "expected": v.name, "placement": pc})))
            elif not payload_all_default(c):
                out.append(Violation("C04", "every payload field is Default::default()", "C04:payload", "index %d constructs %s" % (k, H.brief(c.node)), where(info, "EnumIter")))
        for k, c in it.entries:
            bv = {x.name: x for x in es.variants}.get(c.variant)
            if bv is not None and bv.disabled and not any(True for kk, vv in enumerate(en) if kk == k):
                out.append(Violation("C04", "disabled variants never appear", "C04:wrong-variant:disabled-yielded:%s" % pc, "index %d constructs disabled %s" % (k, c.variant), where(info, "EnumIter")))
        # the literal the cursor methods compare with is the number of enabled variants
        lits = it.cursor_literals()
        for name in ("nth", "next_back", "size_hint"):
            for l in lits.get(name, []):
                if l not in (0, 1, n):
                    out.append(Violation("C04", "the cursor methods use the number of enabled variants as the length", "C04:cursor-length:%s" % name,
                                         "%s uses literal %d, number of enabled variants is %d" % (name, l, n), where(info, "EnumIter", {"method": name, "literal": l, "n": n})))
                    break
            if n > 1 and name in lits and n not in lits[name]:
                out.append(Violation("C04", "the cursor methods use the number of enabled variants as the length", "C04:cursor-length-missing:%s" % name,
                                     "%s never mentions %d" % (name, n), where(info, "EnumIter", {"method": name, "n": n})))
        # COUNT
        try:
            cv = count_value(info)
            if cv is not None:
                rows += 1
                if cv != n:
                    out.append(Violation("C04", "the number of items equals EnumCount::COUNT", "C04:count:%s" % pc, "COUNT = %d, enabled variants = %d" % (cv, n), where(info, "EnumCount", {"placement": pc})))
        except Unrecognised as e:
            out.append(unrec("C04", info, "EnumCount", e))
        # iter() starts both cursors at zero
        if it.into_iter is not None:
            f = fn_of(it.into_iter, "iter")
            ok = False
            if f:
                _s, t = H.tail_of_body(f["body"]["tree"])
                c = H.ctor_of(t)
                if c is None or _s:
                    # through a private constructor helper, a `let`, ..: normalise (straight-line code)
                    try:
                        import symeval as SE
                        tr_ = SE.Builder(f, {}, T.group_fns(g, info)).tree()
                        if isinstance(tr_, SE.Leaf) and not tr_.diverge:
                            c = H.ctor_of(tr_.value)
                    except Unrecognised:
                        pass
                if c and c.adt == it.iter_def:
                    zeros = [nm for nm, e in c.payload if H.lit_value(e, "int") == 0]
                    usize_fields = [fl["name"] for fl in it.struct["fields"] if fl["ty"]["s"] == "usize"]
                    ok = sorted(zeros) == sorted(usize_fields) and len(usize_fields) == 2
            if not ok:
                out.append(Violation("C04", "iter() starts with both cursors at 0", "C04:iter-init", "iter() is %s" % (H.brief(f["body"]["tree"]) if f else None), where(info, "EnumIter")))
        if len(samples) < 4:
            samples.append({"enum": info.where(), "index_table": [(k, c.variant) for k, c in it.entries][:10], "enabled": [v.name for v in en][:10], "placement": pc})
    cov = {"programs": programs, "disagreements_checked": len(out), "samples": samples, "evaluations": rows, "distinct_nontrivial": len(classes), "skipped": skipped,
           "rule": "EIter::get is `match idx {0 => Some(c0), .., n-1 => Some(c_{n-1}), _ => None}` with keys exactly 0..n, c_k the k-th enabled variant in declaration order with all-Default payload; cursor methods mention no length other than n; COUNT (const-evaluated) == n; iter() zeroes both cursors. Traversal order (front = get(idx), back = get(N-back-1)) is C05's cursor specification.",
           "assumptions": ["order of traversal follows from the cursor specs proven under C05"]}
    return out, cov


# ------------------------------------------------------------------------------------------------
# C08
# ------------------------------------------------------------------------------------------------

def variant_array(info: EnumInfo) -> Optional[List[H.Ctor]]:
    g = info.group("VariantArray")
    if not g:
        return None
    imps = g.impls("VariantArray")
    if len(imps) != 1:
        raise Unrecognised("expected one VariantArray impl")
    return T.const_ctor_slice(imps[0], "VARIANTS")


def C08(infos: List[EnumInfo], ctx: dict):
    out: List[Violation] = []
    programs = 0
    rows = 0
    classes = set()
    samples = []
    skipped = []
    for info in infos:
        have = [d for d in ("EnumCount", "VariantNames", "VariantArray", "EnumIter") if info.group(d)]
        if not have:
            continue
        if info.spec is None:
            skipped.append({"enum": info.where(), "reason": info.skip_reason})
            continue
        es = info.spec
        n_en = len(es.enabled())
        n_all = len(es.variants)
        pc = placement_class(es)
        programs += 1
        classes.add("%s/%s/n=%d" % ("+".join(have), pc, min(n_all, 9)))
        cnt = names = arr = it = None
        try:
            cnt = count_value(info)
        except Unrecognised as e:
            out.append(unrec("C08", info, "EnumCount", e))
        nt = NameTables(info)
        names = nt.variant_names
        for d, e in nt.errors:
            if d in ("VariantNames", "EnumVariantNames"):
                out.append(unrec("C08", info, d, e))
        try:
            arr = variant_array(info)
        except Unrecognised as e:
            out.append(unrec("C08", info, "VariantArray", e))
        if info.group("EnumIter"):
            try:
                it = IterTable(info, info.group("EnumIter"))
            except Unrecognised as e:
                out.append(unrec("C08", info, "EnumIter", e))
        if cnt is not None:
            rows += 1
            if cnt != n_en:
                out.append(Violation("C08", "COUNT equals the number of enabled variants", "C08:count:%s" % pc, "COUNT = %d, enabled = %d" % (cnt, n_en), where(info, "EnumCount", {"placement": pc})))
            if it is not None:
                keys = sorted(k for k, _ in it.entries)
                # iter() walks indices 0, 1, 2.. and stops at the first index without an entry
                reach = 0
                while reach in keys:
                    reach += 1
                if reach != cnt:
                    why = "index table has a hole at %d" % reach if len(keys) > reach else "iterator table has %d entries" % len(keys)
                    out.append(Violation("C08", "COUNT equals iter().count()", "C08:count-vs-iter:%s" % pc, "COUNT = %d but iter() yields %d items (%s)" % (cnt, reach, why), where(info, "EnumIter", {"placement": pc, "keys": keys})))
        if names is not None:
            rows += 1
            if len(names) != n_all:
                out.append(Violation("C08", "VariantNames has one entry per declared variant", "C08:names-length:%s" % pc, "%d names for %d declared variants" % (len(names), n_all), where(info, "VariantNames", {"placement": pc})))
            else:
                for v in es.variants if es.names_modelled() else []:
                    rows += 1
                    if names[v.index] not in es.canonical_set(v):
                        out.append(Violation("C08", "VariantNames::VARIANTS[i] is the canonical name of the i-th declared variant", "C08:names-content",
                                             "VARIANTS[%d] = %r, expected %r" % (v.index, names[v.index], es.canonical_set(v)), where(info, "VariantNames", {"variant": v.name})))
        if arr is not None:
            rows += 1
            if len(arr) != n_all:
                out.append(Violation("C08", "VariantArray has one entry per declared variant", "C08:array-length:%s" % pc, "%d values for %d declared variants" % (len(arr), n_all), where(info, "VariantArray", {"placement": pc})))
            else:
                for v in es.variants:
                    rows += 1
                    c = arr[v.index]
                    if c.adt != info.def_path or c.variant != v.name:
                        out.append(Violation("C08", "VariantArray::VARIANTS[i] is the i-th declared variant", "C08:array-content", "VARIANTS[%d] = %s, expected %s" % (v.index, c.variant, v.name), where(info, "VariantArray")))
        if pc == "none" and it is not None:
            tbl = dict(it.entries)
            for v in es.variants:
                rows += 1
                c = tbl.get(v.index)
                if c is None or c.variant != v.name:
                    out.append(Violation("C08", "without disabled variants position i is the same variant in all four", "C08:position:iter", "iterator index %d is %s, declared variant %s" % (v.index, c.variant if c else None, v.name), where(info, "EnumIter")))
                if arr is not None and len(arr) == n_all and c is not None and arr[v.index].variant != c.variant:
                    out.append(Violation("C08", "VariantArray::VARIANTS[i] is the i-th iterated value", "C08:position:array-vs-iter", "index %d: array %s, iterator %s" % (v.index, arr[v.index].variant, c.variant), where(info, "VariantArray")))
        if len(samples) < 4 and len(have) >= 2:
            samples.append({"enum": info.where(), "COUNT": cnt, "names": names[:6] if names else None, "array": [c.variant for c in arr][:6] if arr else None, "iter": [c.variant for _k, c in it.entries][:6] if it else None})
    cov = {"programs": programs, "disagreements_checked": len(out), "samples": samples, "evaluations": rows, "distinct_nontrivial": len(classes), "skipped": skipped,
           "rule": "relational over sibling generated tables: COUNT == #entries of the iterator table == #enabled; len(VariantNames) == len(VariantArray) == #declared; position i names/constructs the i-th declared variant in each"}
    return out, cov


# ------------------------------------------------------------------------------------------------
# C06
# ------------------------------------------------------------------------------------------------

def int_bounds(ty: str) -> Tuple[Optional[int], Optional[int]]:
    import re as _re
    m = _re.match(r"^([iu])(8|16|32|64|128|size)$", ty or "")
    if not m:
        return None, None
    bits = 64 if m.group(2) == "size" else int(m.group(2))
    if m.group(1) == "u":
        return 0, (1 << bits) - 1
    return -(1 << (bits - 1)), (1 << (bits - 1)) - 1


class ReprTable:
    def __init__(self, info: EnumInfo, g: DeriveGroup):
        f = None
        for imp in g.impls(inherent=True):
            if fn_of(imp, "from_repr"):
                f = fn_of(imp, "from_repr")
        if f is None:
            raise Unrecognised("no from_repr fn generated")
        self.fn = f
        self.consts: Dict[str, dict] = {}
        self.rows: List[Tuple[Optional[int], H.Ctor, Any]] = []
        self.wild_none = False
        try:
            self._shape(f)
        except Unrecognised as e1:
            self.rows = []
            try:
                self._tree(info, g, f)
            except Unrecognised as e2:
                raise Unrecognised("%s [decision-tree normaliser: %s]" % (e1, e2), getattr(e1, "node", None))

    def _tree(self, info: EnumInfo, g: DeriveGroup, f: dict):
        extra = []
        for v in (info.sem or {}).get("variants", []):
            try:
                extra.append(int(v["disc"]))
            except (KeyError, TypeError, ValueError):
                pass
        pty = f["sig"]["inputs"][0]["s"] if f["sig"]["inputs"] else "usize"
        lo, hi = int_bounds(pty)
        rows, others = T.int_table_tree(f, 0, T.group_fns(g, info), extra, lo, hi)
        is_none = lambda v: isinstance(H.strip(v), dict) and H.strip(v).get("k") == "path" and H.strip(v).get("def") == T.NONE
        for k, v in rows + others:
            if is_none(v):
                continue
            co = H.call_of(v)
            c = H.ctor_of(co[1][0]) if (co and co[0].get("def") == T.SOME and len(co[1]) == 1) else None
            if c is None:
                raise Unrecognised("from_repr(%d) is neither None nor Some(variant): %s" % (k, H.brief(v, 80)), v)
            self.rows.append((k, c, {"body": v, "normalised": True}))
        row_keys = set(r[0] for r in self.rows)
        self.wild_none = all(is_none(v) or k in row_keys for k, v in others)
        # a value that is no constant of the function but yields a variant was added to rows above, so C06's
        # extra-value rule sees it

    def _shape(self, f: dict):
        stmts, tail = H.tail_of_body(f["body"]["tree"])
        for s in stmts:
            if s.get("k") == "item" and s.get("item") == "const":
                self.consts[s["name"]] = s
            elif s.get("k") == "item" and s.get("item") == "use":
                continue
            else:
                raise Unrecognised("unexpected statement in from_repr", s)
        m = H.match_on(tail)
        if m is None:
            raise Unrecognised("from_repr is not a match: " + H.brief(tail), tail)
        if not H.is_local(m["scrut"], param=0):
            raise Unrecognised("from_repr does not match on its parameter", m)
        for arm in m["arms"]:
            p = arm["pat"]
            if H.is_wild(p) and arm.get("guard") is None:
                b = H.strip(arm["body"])
                self.wild_none = isinstance(b, dict) and b.get("k") == "path" and b.get("def") == T.NONE
                break
            co = H.call_of(arm["body"])
            if not (co and co[0].get("def") == T.SOME and len(co[1]) == 1):
                raise Unrecognised("from_repr arm is not Some(..)", arm)
            c = H.ctor_of(co[1][0])
            if c is None:
                raise Unrecognised("from_repr arm does not construct a variant", arm)
            val = None
            b = H.binding(p)
            if b is not None and arm.get("guard") is not None:
                gd = H.strip(arm["guard"])
                if gd.get("k") == "bin" and gd.get("op") == "==" and not gd.get("overloaded"):
                    l, r = H.strip(gd["l"]), H.strip(gd["r"])
                    if H.is_local(r, binding_id=b["id"]):
                        l, r = r, l
                    if H.is_local(l, binding_id=b["id"]):
                        val = self._const_val(r)
                if val is None:
                    raise Unrecognised("from_repr guard is not `<input> == <constant>`: " + H.brief(gd), arm)
            elif p.get("k") == "plit" and arm.get("guard") is None:
                val = H.lit_value(p["lit"], "int")
            elif p.get("k") == "ppath" and arm.get("guard") is None:
                val = self._const_val(p["path"])
            if val is None:
                raise Unrecognised("unrecognised from_repr arm: " + H.render_pat(p), arm)
            self.rows.append((val, c, arm))

    def _const_val(self, e: Any) -> Optional[int]:
        e = H.strip(e)
        v = H.lit_value(e, "int")
        if v is not None:
            return v
        if isinstance(e, dict) and e.get("k") == "path" and str(e.get("dk", "")).startswith("Const"):
            nm = (e.get("written") or "").split("::")[-1]
            c = self.consts.get(nm)
            if c is not None and c.get("value") is not None:
                return int(c["value"])
        return None


def C06(infos: List[EnumInfo], ctx: dict):
    out: List[Violation] = []
    programs = 0
    rows = 0
    classes = set()
    samples = []
    skipped = []
    for info in infos:
        g = info.group("FromRepr")
        if not g:
            continue
        if info.spec is None or info.sem is None:
            skipped.append({"enum": info.where(), "reason": info.skip_reason or "no compiler facts"})
            continue
        es = info.spec
        try:
            rt = ReprTable(info, g)
        except Unrecognised as e:
            out.append(unrec("C06", info, "FromRepr", e))
            continue
        programs += 1
        pc = placement_class(es)
        form = "explicit" if any(v.disc_expr for v in es.variants) else "implicit"
        classes.add("%s/%s/%s/%s" % (es.repr_int or "none", form, pc, "data" if any(v.kind != "unit" for v in es.variants) else "unit"))
        sem = {v["name"]: int(v["disc"]) for v in info.sem["variants"]}
        by_name = {v.name: v for v in es.variants}
        # parameter type
        pty = rt.fn["sig"]["inputs"][0]["s"] if rt.fn["sig"]["inputs"] else None
        want_ty = es.repr_ty()
        if pty != want_ty:
            out.append(Violation("C06", "the parameter type is the #[repr] integer type (usize if none)", "C06:param-type:%s" % (es.repr_int or "none"),
                                 "from_repr takes %s, expected %s" % (pty, want_ty), where(info, "FromRepr", {"repr": es.repr_tokens})))
        # constness
        no_data = all(v.kind == "unit" for v in es.variants)
        if no_data and not rt.fn.get("const"):
            out.append(Violation("C06", "from_repr is a const fn when no variant carries data", "C06:not-const", "from_repr is not const", where(info, "FromRepr")))
        # value -> variant map
        got: Dict[int, str] = {}
        for val, c, arm in rt.rows:
            rows += 1
            if c.adt != info.def_path or c.variant not in by_name:
                out.append(Violation("C06", "arms construct variants of the deriving enum", "C06:foreign-ctor", "arm constructs %s::%s" % (c.adt, c.variant), where(info, "FromRepr")))
                continue
            v = by_name[c.variant]
            if v.disabled:
                out.append(Violation("C06", "a disabled variant is never produced", "C06:disabled-produced", "from_repr(%d) constructs disabled %s" % (val, v.name), where(info, "FromRepr")))
            if not payload_all_default(c):
                out.append(Violation("C06", "payload fields are defaulted", "C06:payload", "arm constructs %s" % H.brief(c.node), where(info, "FromRepr")))
            if val in got and got[val] != c.variant:
                pass  # first arm wins, as in match semantics
            else:
                got.setdefault(val, c.variant)
        exp = {sem[v.name]: v.name for v in es.enabled() if v.name in sem}
        for d, vname in sorted(exp.items()):
            rows += 1
            if got.get(d) != vname:
                v = by_name[vname]
                prev_disabled = any(x.disabled for x in es.variants[: v.index])
                implicit = v.disc_expr is None
                found = got.get(d)
                generated_value = [val for val, c, _a in rt.rows if c.variant == vname]
                cause = "value_shift" if generated_value and generated_value[0] != d else "missing"
                out.append(Violation("C06", "from_repr(d) == Some(V) exactly when d is rustc's discriminant of enabled V",
                                     "C06:mismatch=%s:preceded_by_disabled=%s:implicit=%s" % (cause, prev_disabled, implicit),
                                     "rustc gives %s the discriminant %d, from_repr(%d) = %s (generated constant for %s: %s)" % (vname, d, d, ("Some(%s)" % found) if found else "None", vname, generated_value),
                                     where(info, "FromRepr", {"variant": vname, "rustc_discriminant": d, "from_repr_result": found, "generated_constant": generated_value, "placement": pc, "repr": es.repr_int,
                                                              "declaration": [(x.name, x.disc_expr, "disabled" if x.disabled else "") for x in es.variants]})))
        for d, vname in sorted(got.items()):
            if d not in exp:
                v = by_name.get(vname)
                prev_disabled = any(x.disabled for x in es.variants[: v.index]) if v else False
                out.append(Violation("C06", "from_repr(d) is None for every d that is not the discriminant of an enabled variant",
                                     "C06:extra-value:preceded_by_disabled=%s" % prev_disabled,
                                     "from_repr(%d) = Some(%s) but no enabled variant has discriminant %d" % (d, vname, d), where(info, "FromRepr", {"value": d, "variant": vname, "placement": pc})))
        if not rt.wild_none:
            out.append(Violation("C06", "every other value yields None", "C06:wild-not-none", "wildcard arm is not None", where(info, "FromRepr")))
        if len(samples) < 5:
            samples.append({"enum": info.where(), "repr": es.repr_int, "generated": sorted(got.items())[:8], "rustc": sorted(exp.items())[:8]})
    # W: from_repr is callable in const context when no variant carries data (negative twin: with data it is not const)
    import witness
    from common import ToolError
    pre = "#![allow(dead_code)]\nuse strum::FromRepr;\n"
    targets = {
        "pos_unit": pre + "#[derive(FromRepr, Debug, PartialEq)]\n#[repr(u8)]\nenum E { A = 1, B, #[strum(disabled)] C, D = 9 }\nconst X: Option<E> = E::from_repr(2);\nconst Y: Option<E> = E::from_repr(3);\nfn main() { let _ = (X, Y); }\n",
        "pos_unit_generic_free": pre + "#[derive(FromRepr, Debug, PartialEq)]\nenum E { A, B }\nconst fn f(d: usize) -> bool { E::from_repr(d).is_some() }\nfn main() { let _ = f(1); }\n",
        "neg_data": pre + "#[derive(FromRepr, Debug, PartialEq)]\nenum E { A, B(u8) }\nconst X: Option<E> = E::from_repr(1);\nfn main() {}\n",
    }
    diags, built = witness.check_targets("c06const", targets)
    for name in sorted(targets):
        errs = diags.get(name, [])
        rows += 1
        if name.startswith("pos_") and errs:
            out.append(Violation("C06", "W: from_repr is callable in const context when no variant carries data", "C06:const-context",
                                 "const evaluation of from_repr does not compile: %s" % errs[0].get("message", "")[:200], {"witness": name, "source": targets[name], "generator_fn": GEN_FN["FromRepr"]}))
        if name.startswith("neg_") and not errs:
            raise ToolError("negative twin %s unexpectedly compiles (the const-context witness is not sensitive)" % name)
    cov = {"programs": programs, "disagreements_checked": len(out), "samples": samples, "evaluations": rows, "distinct_nontrivial": len(classes), "skipped": skipped, "const_context_witnesses": len(targets),
           "rule": "arms `v if v == K_i => Some(c_i)` with K_i evaluated by rustc (const_eval) form the map {value -> variant}; it must equal {adt_def.discriminant(V) -> V | V enabled}; parameter type == repr integer type; const when field-less; payload defaulted; wildcard None. Builtin integer == decides every d of the type."}
    return out, cov


# ------------------------------------------------------------------------------------------------
# C09
# ------------------------------------------------------------------------------------------------

def _norm_ws(s: str) -> str:
    return re.sub(r"\s+", "", s)


def C09(infos: List[EnumInfo], ctx: dict):
    out: List[Violation] = []
    programs = 0
    rows = 0
    classes = set()
    samples = []
    skipped = []
    index: Dict[Tuple[str, str], EnumInfo] = {(i.stem, i.def_path): i for i in infos}
    attr_observations: List[str] = []
    for info in infos:
        g = info.group("EnumDiscriminants")
        if not g:
            continue
        if info.spec is None or info.sem is None:
            skipped.append({"enum": info.where(), "reason": info.skip_reason or "no compiler facts"})
            continue
        es = info.spec
        D = "EnumDiscriminants"
        gens = [it for it in g.items if it["item"] == "enum"]
        if len(gens) != 1:
            out.append(Violation("C09", "exactly one discriminant enum is generated", "C09:no-enum", "%d enums generated" % len(gens), where(info, D)))
            continue
        ge = gens[0]
        dinfo = index.get((info.stem, ge["def"]))
        if dinfo is None or dinfo.sem is None:
            out.append(Violation("C09", "the generated enum is visible to the compiler", "C09:enum-not-found", "generated enum %s not found" % ge["def"], where(info, D)))
            continue
        programs += 1
        classes.add("repr=%s/disc=%s/name=%s/vis=%s/derives=%d/others=%d" % (es.repr_tokens, any(v.disc_expr for v in es.variants), es.disc_name is not None, es.disc_vis, len(es.disc_derives), len(es.disc_others)))
        # name
        rows += 1
        if ge["name"] != es.discriminants_name():
            out.append(Violation("C09", "the generated type has the requested / default name", "C09:name", "generated %s, expected %s" % (ge["name"], es.discriminants_name()), where(info, D)))
        # variants: names, order, field-less
        dv = dinfo.sem["variants"]
        ev = info.sem["variants"]
        if [v["name"] for v in dv] != [v["name"] for v in ev]:
            out.append(Violation("C09", "same variant names in the same order", "C09:variants", "generated %s, declared %s" % ([v["name"] for v in dv], [v["name"] for v in ev]), where(info, D)))
        else:
            for a, b in zip(dv, ev):
                rows += 1
                if a["kind"] != "unit":
                    out.append(Violation("C09", "generated variants are field-less", "C09:not-fieldless", "%s is %s" % (a["name"], a["kind"]), where(info, D)))
                if int(a["disc"]) != int(b["disc"]):
                    out.append(Violation("C09", "same discriminant values", "C09:discriminant-value:%s" % ("explicit" if any(v.disc_expr for v in es.variants) else "implicit"),
                                         "%s: generated %s, source %s" % (a["name"], a["disc"], b["disc"]), where(info, D, {"variant": a["name"]})))
        # repr
        rows += 1
        own_repr = any(_norm_ws(str(o)).replace(" ", "").startswith("repr(") for o in es.disc_others)     # a pass-through repr on an enum without one is the companion's own
        if dinfo.sem["repr"] != info.sem["repr"] and not (own_repr and not es.repr_tokens):
            out.append(Violation("C09", "same #[repr]", "C09:repr", "generated %s, source %s" % (dinfo.sem["repr"], info.sem["repr"]), where(info, D)))
        # visibility
        rows += 1
        evis, dvis = info.sem["vis"], dinfo.sem["vis"]
        if es.disc_vis is None:
            if dvis != evis:
                out.append(Violation("C09", "the generated type has the source enum's visibility", "C09:vis:inherited", "generated %s, source %s" % (dvis, evis), where(info, D)))
        else:
            want = None
            w = _norm_ws(es.disc_vis)
            mod = info.sem.get("module", "")
            if w == "pub":
                want = "pub"
            elif w == "pub(crate)":
                want = "restricted(crate)"
            elif w == "pub(super)":
                parent = "::".join(mod.split("::")[:-1]) if mod else None
                want = "restricted(%s)" % parent if parent else "restricted(crate)"
            elif w in ("pub(self)", ""):
                want = "restricted(%s)" % mod if mod else "restricted(crate)"
            if want is not None and dvis != want:
                out.append(Violation("C09", "vis(..) overrides the visibility", "C09:vis:override", "generated %s, requested %s" % (dvis, es.disc_vis), where(info, D)))
        # conversions
        conv = {}
        for imp in g.impls("core::convert::From"):
            if imp["self_ty"].get("adt") != ge["def"]:
                continue
            arg = imp["trait"]["args"][0] if imp["trait"]["args"] else {}
            if arg.get("adt") != info.def_path:
                continue
            conv["From<&E>" if arg.get("refs") else "From<E>"] = imp
        for label in ("From<E>", "From<&E>"):
            imp = conv.get(label)
            if imp is None:
                out.append(Violation("C09", "From<E> and From<&E> are generated", "C09:conv-missing:%s" % label, "%s not generated" % label, where(info, D)))
                continue
            try:
                vm = T.variant_match(fn_of(imp, "from"), 0, fns=T.group_fns(g, info))
            except Unrecognised as e:
                out.append(unrec("C09", info, D, e))
                continue
            if vm.wild is not None:
                out.append(Violation("C09", "the conversion is an exhaustive match without wildcard", "C09:conv-wildcard", "%s has a wildcard arm" % label, where(info, D)))
            seen = {}
            for vp, body, node in vm.arms:
                rows += 1
                c = H.ctor_of(body)
                if vp.variant in seen:
                    continue
                seen[vp.variant] = c
                if c is None or c.adt != ge["def"] or c.variant != vp.variant or vp.adt != info.def_path:
                    out.append(Violation("C09", "every conversion maps a variant to the discriminant of the same name", "C09:conv-wrong-variant:%s" % label,
                                         "%s maps %s to %s" % (label, vp.variant, c.variant if c else H.brief(body)), where(info, D, {"conversion": label, "from": vp.variant, "to": c.variant if c else None})))
            missing = [v["name"] for v in ev if v["name"] not in seen]
            if missing and vm.wild is None:
                out.append(Violation("C09", "the conversion covers every variant", "C09:conv-missing-arm", "%s lacks arms for %s" % (label, missing), where(info, D)))
        # IntoDiscriminant
        want_into = es.disc_vis is None or _norm_ws(es.disc_vis) == "pub"
        idi = g.impls("IntoDiscriminant")
        rows += 1
        if want_into and not idi:
            out.append(Violation("C09", "IntoDiscriminant is implemented", "C09:into-discriminant-missing", "no IntoDiscriminant impl", where(info, D)))
        for imp in idi:
            ty = assoc_of(imp, "Discriminant", "type")
            if ty is None or ty["ty"].get("adt") != ge["def"]:
                out.append(Violation("C09", "IntoDiscriminant::Discriminant is the generated type", "C09:into-discriminant-type", "Discriminant = %s" % (ty and ty["ty"].get("s")), where(info, D)))
            f = fn_of(imp, "discriminant")
            ok = False
            if f:
                _s, t = H.tail_of_body(f["body"]["tree"])
                co = H.call_of(t)
                if co and not _s and len(co[1]) == 1 and H.is_local(co[1][0], param=0):
                    if co[0].get("def") == "core::convert::From::from":
                        ta = co[0].get("targs") or []
                        ok = len(ta) >= 2 and ta[0].split("::")[-1] == ge["name"] and ta[1].startswith("&")
                    elif co[0].get("method") and co[0].get("def") == "core::convert::Into::into":
                        ok = True
            if not ok and f:
                # any other shape (own match, helper, by-value From): every variant must map to the discriminant of the same name
                try:
                    vt = T.variant_match_tree(f, 0, T.group_fns(g, info))
                    mapped = {}
                    for vp_, body_, _n in vt.arms:
                        c_ = H.ctor_of(body_)
                        mapped.setdefault(vp_.variant, c_)
                    ok = vt.wild is None and all((mapped.get(v_["name"]) is not None and mapped[v_["name"]].adt == ge["def"] and mapped[v_["name"]].variant == v_["name"]) for v_ in ev) and set(mapped) <= set(v_["name"] for v_ in ev)
                except Unrecognised:
                    pass
            if not ok:
                out.append(Violation("C09", "discriminant() delegates to From<&Self>", "C09:into-discriminant-body", "discriminant() is %s" % (H.brief(f["body"]["tree"]) if f else None), where(info, D)))
        # requested derives + built-ins
        builtin = ["Clone", "Copy", "Debug", "PartialEq", "Eq"]
        have_derives = set()
        for it in g.items:
            ch = it.get("chain") or []
            if ch and ch[0]["kind"] == "Derive" and it["item"] == "impl" and (it["self_ty"].get("adt") == ge["def"]):
                have_derives.add(ch[0]["name"].split("::")[-1])
        for d_ in dinfo.groups:
            have_derives.add(d_)
        for im in dinfo.sem.get("impls", []):
            if im.get("derive"):
                have_derives.add(im["derive"])
        for p in [x.split("::")[-1] for x in es.disc_derives]:
            rows += 1
            if p not in have_derives:
                out.append(Violation("C09", "requested derives take effect on the generated type", "C09:derive-missing:%s" % ("builtin" if p in builtin else "requested"),
                                     "no impl expanded from derive(%s) on %s" % (p, ge["name"]), where(info, D, {"derive_requested": p, "have": sorted(have_derives)})))
        # pass-through attributes and docs
        dattrs = [_norm_ws(a.get("text", "")) for a in dinfo.adt.get("attrs", [])]
        for o in es.disc_others:
            rows += 1
            if not any(_norm_ws("#[" + o + "]") == t for t in dattrs):
                out.append(Violation("C09", "pass-through attributes appear on the generated type", "C09:passthrough-missing", "attribute %s missing on %s" % (o, ge["name"]), where(info, D, {"attrs": dattrs[:10]})))
        ddocs = [a.get("doc") for a in dinfo.adt.get("attrs", []) if a.get("path") == "doc"]
        for dd in es.disc_docs:
            if dd not in ddocs:
                out.append(Violation("C09", "doc = .. appears on the generated type", "C09:doc-missing", "doc %r missing" % dd, where(info, D)))
        dvars = {v["name"]: v for v in dinfo.adt.get("variants", [])}
        # The property speaks of the attributes *requested through strum_discriminants(..)*; that the derive also copies a variant's
        # doc / allow / deny attributes is not part of it. A difference there is recorded as an observation, never reported.
        # (`cfg` needs no rule: a variant configured differently on the two enums breaks the exhaustive From impls at compile time.)
        src_vars = {v_["name"]: v_ for v_ in info.adt.get("variants", [])}
        for v in es.variants:
            copied = lambda attrs: [_norm_ws(a.get("text", "")) if a.get("path") != "doc" else ("doc:%r" % (a.get("doc"),)) for a in attrs if a.get("path") in ("doc", "allow", "deny")]
            if copied(src_vars.get(v.name, {}).get("attrs", [])) != copied(dvars.get(v.name, {}).get("attrs", [])):
                attr_observations.append("%s::%s" % (ge["name"], v.name))
        for v in es.variants:
            for pt_ in v.disc_passthrough:
                m = re.match(r"#\[strum_discriminants\((.*)\)\]$", pt_.strip(), re.S)
                inner = _norm_ws("#[" + m.group(1) + "]") if m else None
                have = [_norm_ws(a.get("text", "")) for a in dvars.get(v.name, {}).get("attrs", [])]
                rows += 1
                if inner and inner not in have:
                    out.append(Violation("C09", "variant-level strum_discriminants(..) attributes are passed to the generated variant", "C09:variant-passthrough-missing",
                                         "%s missing on %s::%s" % (inner, ge["name"], v.name), where(info, D)))
        if len(samples) < 4:
            samples.append({"enum": info.where(), "generated": ge["name"], "variants": [(v["name"], v["disc"]) for v in dv][:6], "source": [(v["name"], v["disc"]) for v in ev][:6], "repr": dinfo.sem["repr"], "vis": dvis})
    cov = {"programs": programs, "disagreements_checked": len(out), "samples": samples, "evaluations": rows, "distinct_nontrivial": len(classes), "skipped": skipped,
           "observations_variant_doc_lint_attrs_not_mirrored": attr_observations[:20],
           "rule": "generated enum: requested/default name, visibility (tcx.visibility), field-less variants with the source's names in order; rustc's discriminant values and ReprOptions of both ADTs equal; From<E>/From<&E> exhaustive matches E::V{..} => D::V without wildcard; discriminant() == <Self::Discriminant as From<&Self>>::from(self); an impl expanded from every built-in and requested derive exists on D; pass-through attributes/docs present in the expanded AST"}
    return out, cov


# ------------------------------------------------------------------------------------------------
# C10
# ------------------------------------------------------------------------------------------------

def _self_field(e: Any, self_param: int = 0) -> Optional[str]:
    e = H.strip(e)
    if isinstance(e, dict) and e.get("k") == "field" and H.is_self_scrutinee(e["e"], self_param):
        return e["name"]
    return None


def C10(infos: List[EnumInfo], ctx: dict):
    out: List[Violation] = []
    programs = 0
    rows = 0
    classes = set()
    samples = []
    skipped = []
    for info in infos:
        g = info.group("EnumTable")
        if not g:
            continue
        if info.spec is None:
            skipped.append({"enum": info.where(), "reason": info.skip_reason})
            continue
        es = info.spec
        D = "EnumTable"
        structs = [it for it in g.items if it["item"] == "struct"]
        if len(structs) != 1:
            out.append(Violation("C10", "one table struct is generated", "C10:no-struct", "%d structs" % len(structs), where(info, D)))
            continue
        st = structs[0]
        tdef = st["def"]
        fields = [f["name"] for f in st["fields"]]
        en = es.enabled()
        dis = [v for v in es.variants if v.disabled]
        programs += 1
        pc = placement_class(es)
        classes.add("n=%d/%s" % (min(len(en), 9), pc))
        if len(fields) != len(en) or len(set(fields)) != len(fields):
            out.append(Violation("C10", "exactly one slot per enabled variant", "C10:slot-count:%s" % pc, "%d fields for %d enabled variants" % (len(fields), len(en)), where(info, D)))
            continue
        if any(f["ty"].get("param") is None for f in st["fields"]):
            out.append(Violation("C10", "every slot has the table's value type", "C10:slot-type", "fields %s" % st["fields"], where(info, D)))
        methods: Dict[str, dict] = {}
        for imp in g.items:
            if imp["item"] == "impl" and imp["self_ty"].get("adt") == tdef:
                tr = (imp.get("trait") or {}).get("path")
                if tr is None or tr.startswith("core::ops::index::"):
                    for a in imp.get("assoc", []):
                        if a["kind"] == "fn":
                            methods[a["name"]] = a
        vmap: Dict[str, str] = {}
        try:
            # Index / IndexMut
            for name, mutable in (("index", False), ("index_mut", True)):
                f = methods.get(name)
                if f is None:
                    out.append(Violation("C10", "Index and IndexMut are generated", "C10:missing:%s" % name, "%s not generated" % name, where(info, D)))
                    continue
                vm = T.variant_match(f, 1, fns=T.group_fns(g, info))
                if not vm.scrut_ok:
                    out.append(Violation("C10", "indexing matches on the key", "C10:scrutinee:%s" % name, "%s does not match on its key parameter" % name, where(info, D)))
                local: Dict[str, str] = {}
                for vp, body, node in vm.arms:
                    rows += 1
                    v = next((x for x in es.variants if x.name == vp.variant), None)
                    if v is None or vp.adt != info.def_path:
                        out.append(Violation("C10", "arms name variants of the enum", "C10:foreign-variant", "%s has arm %s" % (name, vp.variant), where(info, D)))
                        continue
                    if vp.variant in local or (v.disabled and vp.variant in [d.name for d in dis if d.name in local]):
                        continue
                    if v.disabled:
                        if not H.diverges(body):
                            out.append(Violation("C10", "indexing with a disabled variant panics", "C10:disabled-not-panicking:%s" % name, "%s arm for disabled %s is %s" % (name, v.name, H.brief(body)), where(info, D, {"variant": v.name})))
                        local[vp.variant] = "!"
                        continue
                    b = H.strip(body)
                    fld = None
                    if isinstance(b, dict) and b.get("k") == "ref" and bool(b.get("mut")) == mutable:
                        fld = _self_field(b["e"], 0)
                    if fld is None or fld not in fields:
                        out.append(Violation("C10", "an enabled variant indexes its own slot by reference", "C10:index-body:%s" % name, "%s arm for %s is %s" % (name, v.name, H.brief(body)), where(info, D, {"variant": v.name})))
                        continue
                    local[vp.variant] = fld
                for v in es.variants:
                    if v.name not in local:
                        if vm.wild is not None and (v.disabled and H.diverges(vm.wild)):
                            continue
                        out.append(Violation("C10", "indexing covers every variant", "C10:index-missing-arm:%s" % name, "%s has no arm for %s" % (name, v.name), where(info, D)))
                slots = [local[v.name] for v in en if v.name in local]
                if len(set(slots)) != len(slots):
                    dup = [s for s in set(slots) if slots.count(s) > 1]
                    out.append(Violation("C10", "the variant -> slot map is injective (a write to k changes no other slot)", "C10:slots-aliased:%s" % name,
                                         "%s maps two variants to slot %s" % (name, dup), where(info, D, {"map": {v.name: local.get(v.name) for v in en}})))
                if name == "index":
                    vmap = {k: s for k, s in local.items() if s != "!"}
                else:
                    m2 = {k: s for k, s in local.items() if s != "!"}
                    if vmap and m2 != vmap:
                        out.append(Violation("C10", "Index and IndexMut address the same slot for every key", "C10:index-vs-index-mut",
                                             "index: %s / index_mut: %s" % (vmap, m2), where(info, D)))
            order = [vmap.get(v.name) for v in en]
            if None in order or len(set(order)) != len(order):
                raise Unrecognised("variant -> slot map incomplete; constructors not checked")

            def struct_of(fn_name: str, unwrap: Optional[str] = None):
                f = methods.get(fn_name)
                if f is None:
                    out.append(Violation("C10", "constructor is generated", "C10:missing:%s" % fn_name, "%s not generated" % fn_name, where(info, D)))
                    return None, None
                s_, t = H.tail_of_body(f["body"]["tree"])
                if s_:
                    # `let`s before the struct expression: substitute them (straight-line code only)
                    import symeval as SE
                    try:
                        tr_ = SE.Builder(f, {}, {}).tree()
                    except Unrecognised as e2:
                        raise Unrecognised("unexpected statements in %s [decision-tree normaliser: %s]" % (fn_name, e2), s_)
                    if not isinstance(tr_, SE.Leaf) or tr_.diverge:
                        raise Unrecognised("unexpected statements in %s [decision-tree normaliser: the function branches]" % fn_name, s_)
                    t = tr_.value
                if unwrap:
                    co = H.call_of(t)
                    if not (co and co[0].get("def") == unwrap and len(co[1]) == 1):
                        raise Unrecognised("%s is not %s(..)" % (fn_name, unwrap.split("::")[-1]), t)
                    t = co[1][0]
                c = H.ctor_of(t)
                if c is None or c.adt != tdef or [n for n, _ in c.payload].count(None):
                    raise Unrecognised("%s does not build the table struct: %s" % (fn_name, H.brief(t)), t)
                if sorted(n for n, _ in c.payload) != sorted(fields):
                    out.append(Violation("C10", "constructors fill every slot", "C10:ctor-fields:%s" % fn_name, "%s fills %s" % (fn_name, [n for n, _ in c.payload]), where(info, D)))
                    return None, None
                return f, c

            # new
            f, c = struct_of("new")
            if c:
                nparams = len(f["body"]["params"])
                if nparams != len(en):
                    out.append(Violation("C10", "new(..) takes one value per slot", "C10:new-arity", "new takes %d parameters for %d slots" % (nparams, len(en)), where(info, D)))
                else:
                    pl = dict(c.payload)
                    for i, v in enumerate(en):
                        rows += 1
                        if not H.is_local(pl[order[i]], param=i):
                            out.append(Violation("C10", "new(..) takes slots in declaration order", "C10:new-order", "slot of %s (%s) is filled with %s, expected parameter %d" % (v.name, order[i], H.brief(pl[order[i]]), i),
                                                 where(info, D, {"variant": v.name})))
            # filled
            f, c = struct_of("filled")
            if c:
                for nme, e in c.payload:
                    rows += 1
                    e_ = H.strip(e)
                    ok = isinstance(e_, dict) and e_.get("k") == "mcall" and e_.get("def") == "core::clone::Clone::clone" and H.is_local(e_["recv"], param=0) and not e_["args"]
                    if not ok:
                        out.append(Violation("C10", "filled(x)[k] == x for every k", "C10:filled", "slot %s is %s" % (nme, H.brief(e)), where(info, D)))
            # from_closure
            f, c = struct_of("from_closure")
            if c:
                pl = dict(c.payload)
                for i, v in enumerate(en):
                    rows += 1
                    co = H.call_of(pl[order[i]])
                    ok = False
                    if co is None:
                        e_ = H.strip(pl[order[i]])
                        if isinstance(e_, dict) and e_.get("k") == "call" and H.is_local(e_["f"], param=0) and len(e_["args"]) == 1:
                            k_ = H.ctor_of(e_["args"][0])
                            ok = bool(k_ and k_.adt == info.def_path and k_.variant == v.name)
                    if not ok:
                        out.append(Violation("C10", "from_closure(f)[k] == f(k)", "C10:from_closure", "slot of %s is %s" % (v.name, H.brief(pl[order[i]])), where(info, D, {"variant": v.name})))
            # transform
            f, c = struct_of("transform")
            if c:
                pl = dict(c.payload)
                for i, v in enumerate(en):
                    rows += 1
                    e_ = H.strip(pl[order[i]])
                    ok = False
                    if isinstance(e_, dict) and e_.get("k") == "call" and H.is_local(e_["f"], param=1) and len(e_["args"]) == 2:
                        k_ = H.ctor_of(e_["args"][0])
                        a1 = H.strip(e_["args"][1])
                        fld = _self_field(a1["e"], 0) if isinstance(a1, dict) and a1.get("k") == "ref" and not a1.get("mut") else None
                        ok = bool(k_ and k_.adt == info.def_path and k_.variant == v.name and fld == order[i])
                    if not ok:
                        out.append(Violation("C10", "transform(f)[k] == f(k, &old[k])", "C10:transform", "slot of %s is %s" % (v.name, H.brief(pl[order[i]])), where(info, D, {"variant": v.name})))
            # all
            f = methods.get("all")
            if f is None:
                out.append(Violation("C10", "all() is generated", "C10:missing:all", "all not generated", where(info, D)))
            else:
                s_, t = H.tail_of_body(f["body"]["tree"])
                t = H.strip(t)
                ok = False
                if isinstance(t, dict) and t.get("k") == "if" and t.get("else") is not None and not s_:
                    cnd = H.strip(t["cond"])
                    els = H.strip(t["else"])
                    if cnd.get("k") == "let_expr" and H.is_self_scrutinee(cnd["init"], 0) and isinstance(els, dict) and els.get("def") == T.NONE:
                        p = cnd["pat"]
                        if p.get("k") == "pstruct" and not p.get("rest"):
                            binds = {}
                            for fname, sp_ in p["fields"]:
                                if sp_.get("k") == "ptuple_struct" and sp_["path"].get("def") == T.SOME and len(sp_["pats"]) == 1:
                                    b = H.binding(sp_["pats"][0])
                                    if b:
                                        binds[fname] = b["id"]
                            co = H.call_of(t["then"])
                            if co and co[0].get("def") == T.SOME and len(co[1]) == 1 and sorted(binds) == sorted(fields):
                                c2 = H.ctor_of(co[1][0])
                                if c2 and c2.adt == tdef and sorted(n for n, _ in c2.payload) == sorted(fields):
                                    ok = all(H.is_local(e, binding_id=binds[n]) for n, e in c2.payload)
                if not ok:
                    try:
                        ok = all_tree(f, fields, tdef)
                    except Unrecognised:
                        pass
                rows += 1
                if not ok:
                    out.append(Violation("C10", "all() is Some iff every slot is Some, each value staying in its slot", "C10:all", "all() is %s" % H.brief(t, 300), where(info, D)))
            # all_ok
            f_ok = methods.get("all_ok")
            shape_ok = False
            if f_ok is not None:
                try:
                    _f, c = struct_of("all_ok", unwrap=T.OK)
                    shape_ok = c is not None and all(isinstance(H.strip(e), dict) and H.strip(e).get("k") == "try" for _n, e in c.payload)
                except Unrecognised:
                    shape_ok = False
            if f_ok is not None and not shape_ok:
                # any other shape: every path of the decision tree over "slot i holds Ok"
                for prob in all_ok_tree(f_ok, order, tdef):
                    out.append(Violation("C10", "all_ok() returns Ok(table of the payloads) when every slot is Ok and otherwise the first Err in declaration order", "C10:all_ok-%s" % prob[0], prob[1], where(info, D)))
                rows += len(order)
                c = None
            else:
                f, c = struct_of("all_ok", unwrap=T.OK)
            if c:
                names_in_text_order = [n for n, _ in c.payload]
                for n_, e in c.payload:
                    rows += 1
                    e_ = H.strip(e)
                    if not (isinstance(e_, dict) and e_.get("k") == "try" and _self_field(e_["e"], 0) == n_):
                        out.append(Violation("C10", "all_ok() propagates each slot's own result", "C10:all_ok-slot", "slot %s is %s" % (n_, H.brief(e)), where(info, D)))
                if names_in_text_order != order:
                    out.append(Violation("C10", "all_ok() returns the first Err in declaration order (struct fields are evaluated in textual order)", "C10:all_ok-order",
                                         "fields evaluated as %s, declaration order is %s" % (names_in_text_order, order), where(info, D)))
        except Unrecognised as e:
            out.append(unrec("C10", info, D, e))
        if len(samples) < 4:
            samples.append({"enum": info.where(), "slots": fields[:8], "variant_to_slot": dict(list(vmap.items())[:8]), "disabled": [v.name for v in dis]})
    cov = {"programs": programs, "disagreements_checked": len(out), "samples": samples, "evaluations": rows, "distinct_nontrivial": len(classes), "skipped": skipped,
           "rule": "struct has one T slot per enabled variant; Index/IndexMut are matches mapping enabled V_i to &self.f_i / &mut self.f_i (bijection, same map in both) and disabled variants to a diverging call; new/filled/from_closure/transform/all/all_ok enumerate the slots as specified, in declaration order",
           "assumptions": ["struct fields are disjoint places; struct-expression fields are evaluated in textual order (Rust semantics)"]}
    return out, cov


def _slot_of_place(pk) -> Optional[str]:
    # ('f', ('p', 0), name)
    if isinstance(pk, (list, tuple)) and len(pk) == 3 and pk[0] == "f" and tuple(pk[1]) == ("p", 0):
        return pk[2]
    return None


def _is_proj(e: Any, slot: str, ctor: str) -> bool:
    e = H.strip(e)
    return isinstance(e, dict) and e.get("k") == "proj" and e.get("ctor") == ctor and _slot_of_place(e.get("place")) == slot


def all_tree(f: dict, fields: List[str], tdef: str) -> bool:
    """all() of any shape: on every path of its decision tree over the atoms "slot holds Some", a Some(..) result requires
    every slot to hold Some and carries each payload in its own slot; a None result requires some slot not to."""
    import symeval as SE
    tree = SE.Builder(f, {}, {}).tree()
    for lits, leaf in SE.paths(tree):
        if leaf.diverge:
            return False
        pos = set(_slot_of_place(a[1]) for a, pol in lits if a[0] == "is" and a[2] == "Some" and pol)
        neg = set(_slot_of_place(a[1]) for a, pol in lits if a[0] == "is" and a[2] == "Some" and not pol)
        if any(a[0] != "is" for a, _p in lits):
            raise Unrecognised("all() branches on something other than its slots")
        v = H.strip(leaf.value)
        if isinstance(v, dict) and v.get("k") == "path" and v.get("def") == T.NONE:
            if not neg:
                return False
            continue
        co = H.call_of(v)
        if not (co and co[0].get("def") == T.SOME and len(co[1]) == 1):
            return False
        c2 = H.ctor_of(co[1][0])
        if not (c2 and c2.adt == tdef and sorted(n for n, _ in c2.payload) == sorted(fields)) or neg or pos != set(fields):
            return False
        if not all(_is_proj(e, n, "Some") for n, e in c2.payload):
            return False
    return True


def all_ok_tree(f: dict, order: List[str], tdef: str) -> List[Tuple[str, str]]:
    """Problems of an all_ok() of any shape (empty = it returns Ok(table of payloads) iff every slot is Ok, else the first Err in
    declaration order), decided on every path of its decision tree over the atoms "slot holds Ok"."""
    import symeval as SE
    try:
        tree = SE.Builder(f, {}, {}).tree()
        ps = SE.paths(tree)
    except Unrecognised as e:
        return [("slot", "all_ok() is not understood: %s" % e.what)]
    probs = []
    for lits, leaf in ps:
        if leaf.diverge or any(a[0] != "is" or a[2] != "Ok" for a, _p in lits):
            return [("slot", "all_ok() branches on something other than its slots or does not return")]
        pos = [_slot_of_place(a[1]) for a, pol in lits if pol]
        neg = [_slot_of_place(a[1]) for a, pol in lits if not pol]
        v = H.strip(leaf.value)
        co = H.call_of(v)
        if co and co[0].get("def") == T.OK and len(co[1]) == 1:
            c2 = H.ctor_of(co[1][0])
            if neg or set(pos) != set(order) or not (c2 and c2.adt == tdef and sorted(n for n, _ in c2.payload) == sorted(order)) or not all(_is_proj(e, n, "Ok") for n, e in c2.payload):
                probs.append(("slot", "a path where %s hold Ok and %s do not returns %s" % (pos, neg, H.brief(v, 160))))
            continue
        if co and co[0].get("def") == T.ERR and len(co[1]) == 1:
            a0 = H.strip(co[1][0])
            # From::from(e) of the `?` desugaring is the identity here (same error type)
            ci = H.call_of(a0)
            if ci and ci[0].get("def") == "core::convert::From::from" and len(ci[1]) == 1:
                a0 = H.strip(ci[1][0])
            slot = _slot_of_place(a0.get("place")) if isinstance(a0, dict) and a0.get("k") == "proj" and a0.get("ctor") == "Err" else None
            if slot is None or slot not in neg:
                probs.append(("slot", "an Err path returns %s" % H.brief(v, 120)))
                continue
            i = order.index(slot) if slot in order else -1
            if i < 0 or not set(order[:i]) <= set(pos):
                probs.append(("order", "Err of slot %s is returned although %s have not been found Ok (declaration order %s)" % (slot, [x for x in order[:max(i, 0)] if x not in pos], order)))
            continue
        probs.append(("slot", "a path returns %s" % H.brief(v, 120)))
    return probs


# ------------------------------------------------------------------------------------------------
# C13
# ------------------------------------------------------------------------------------------------

def predicate_truth(f: dict, variants: List[str], fns) -> Dict[str, bool]:
    """variant -> value of a `fn(&self) -> bool` of any shape the normaliser understands (plus '' for a variant the
    function does not name)."""
    import symeval as SE
    b, tree, _named = T._variant_tree(f, 0, fns)
    out = {}
    for w in variants + [""]:
        leaf = SE.run(tree, {"variant": w or None})
        if not w and leaf.diverge == "no arm matches":
            out[w] = False          # an exhaustive match over the named variants: there is no other variant
            continue
        if leaf.diverge:
            raise Unrecognised("predicate does not return for %s" % w)
        val = H.lit_value(leaf.value, "bool")
        if val not in (True, False, "true", "false"):
            raise Unrecognised("predicate value is not a boolean literal: " + H.brief(leaf.value, 60), leaf.value)
        out[w] = val in (True, "true")
    if out.pop(""):
        raise Unrecognised("predicate is true for variants it does not name")
    return out


def try_as_tree(f: dict, v, variants: List[str], fns):
    """'ok' | ('wrong', variant) | ('order', text): `try_as_*` of any shape the normaliser understands, decided on every variant."""
    import symeval as SE
    b, tree, _named = T._variant_tree(f, 0, fns)
    some_for = []
    is_none = lambda x: isinstance(H.strip(x), dict) and H.strip(x).get("k") == "path" and H.strip(x).get("def") == T.NONE
    verdict = None
    for w in variants + [""]:
        leaf = SE.run(tree, {"variant": w or None})
        if not w and leaf.diverge == "no arm matches":
            continue
        if leaf.diverge:
            raise Unrecognised("try_as does not return for %s" % w)
        if is_none(leaf.value):
            continue
        co = H.call_of(leaf.value)
        if not (co and co[0].get("def") == T.SOME and len(co[1]) == 1) or not w:
            raise Unrecognised("try_as result is neither None nor Some(..): " + H.brief(leaf.value, 80), leaf.value)
        some_for.append(w)
        vp = T._vpat_for(leaf, w)
        if vp.shape not in ("tuple", "unit") or vp.rest:
            raise Unrecognised("try_as pattern does not bind every field positionally", vp.node)
        ids = [(H.binding(x) or {}).get("id") for x in vp.subs]
        r = H.strip(co[1][0])
        elems = [r] if len(ids) == 1 else (r.get("elems") if isinstance(r, dict) and r.get("k") == "tup" else None)
        if elems is None or len(elems) != len(ids) or None in ids:
            raise Unrecognised("try_as payload is not the tuple of the pattern's bindings: " + H.brief(r, 80), r)
        if not all(H.is_local(e, binding_id=i_) for e, i_ in zip(elems, ids)):
            if sorted((H.strip(e) or {}).get("id", -1) for e in elems) == sorted(ids):
                verdict = ("order", H.brief(r))
            else:
                raise Unrecognised("try_as payload is not the tuple of the pattern's bindings: " + H.brief(r, 80), r)
    if some_for != [v.name]:
        other = [w for w in some_for if w != v.name]
        return ("wrong", other[0] if other else "no variant")
    return verdict or "ok"


def C13(infos: List[EnumInfo], ctx: dict):
    out: List[Violation] = []
    programs = 0
    rows = 0
    classes = set()
    samples = []
    skipped = []
    for info in infos:
        gi, gt = info.group("EnumIs"), info.group("EnumTryAs")
        if not gi and not gt:
            continue
        if info.spec is None:
            skipped.append({"enum": info.where(), "reason": info.skip_reason})
            continue
        es = info.spec
        programs += 1
        by_name = {v.name: v for v in es.variants}
        semv = {v["name"]: v for v in (info.sem or {}).get("variants", [])}
        if gi:
            fns = {}
            for imp in gi.impls(inherent=True):
                for a in imp["assoc"]:
                    if a["kind"] == "fn":
                        if a["name"] in fns:
                            out.append(Violation("C13", "predicate names are pairwise distinct", "C13:is-duplicate-name", "two fns named %s" % a["name"], where(info, "EnumIs")))
                        fns[a["name"]] = a
            expected = {}
            for v in es.enabled():
                nm = "is_" + S.snakify(v.name)
                if nm in expected:
                    skipped.append({"enum": info.where(), "reason": "two variants snakify to %s (outside the property's domain)" % nm})
                expected[nm] = v
            for nm, v in expected.items():
                rows += 1
                classes.add("is/%s/%s" % (v.kind, "digits" if any(ch.isdigit() for ch in v.name) else "plain"))
                f = fns.get(nm)
                if f is None:
                    cause = "naming" if any(k.startswith("is_") and k not in expected for k in fns) else "missing"
                    out.append(Violation("C13", "one is_<snake_case name>() per enabled variant", "C13:is-missing:%s" % cause, "no fn %s for variant %s (have %s)" % (nm, v.name, sorted(fns)[:8]), where(info, "EnumIs", {"variant": v.name, "expected": nm})))
                    continue
                ok = False
                try:
                    s_, t = H.tail_of_body(f["body"]["tree"])
                    m = H.match_on(t)
                    if m and not s_ and H.is_self_scrutinee(m["scrut"], 0) and len(m["arms"]) == 2:
                        a0, a1 = m["arms"]
                        vp = H.variant_pat(a0["pat"])
                        if vp and a0.get("guard") is None and H.is_wild(a1["pat"]) and a1.get("guard") is None:
                            payload_any = vp.shape == "unit" or (vp.rest and all(H.is_wild(x if vp.shape == "tuple" else x[1]) for x in vp.subs)) or (not vp.subs and vp.rest) or all(H.is_wild(x if vp.shape == "tuple" else x[1]) for x in vp.subs)
                            if H.lit_value(a0["body"], "bool") is True and H.lit_value(a1["body"], "bool") is False and payload_any:
                                if vp.adt == info.def_path and vp.variant == v.name:
                                    ok = True
                                else:
                                    out.append(Violation("C13", "is_x() is true exactly for the variant it is named after", "C13:is-wrong-variant", "%s tests for %s" % (nm, vp.variant), where(info, "EnumIs", {"fn": nm, "tests": vp.variant, "expected": v.name})))
                                    continue
                except Unrecognised:
                    pass
                if not ok:
                    # any other shape: decide the predicate on every variant through the decision-tree normaliser
                    try:
                        truth = predicate_truth(f, [x.name for x in es.variants], T.group_fns(gi, info))
                        yes = sorted(w for w, b_ in truth.items() if b_)
                        if yes == [v.name]:
                            ok = True
                        else:
                            out.append(Violation("C13", "is_x() is true exactly for the variant it is named after", "C13:is-wrong-variant", "%s is true for %s" % (nm, yes or "no variant"),
                                                 where(info, "EnumIs", {"fn": nm, "tests": yes, "expected": v.name})))
                            continue
                    except Unrecognised:
                        pass
                if not ok:
                    out.append(Violation("C13", "is_x() is `match self { E::X{..} => true, _ => false }`", "C13:is-body", "%s is %s" % (nm, H.brief(f["body"]["tree"], 200)), where(info, "EnumIs", {"fn": nm})))
                sg = f["sig"]
                if not (len(sg["inputs"]) == 1 and sg["inputs"][0].get("refs") == ["shared"] and sg["output"]["s"] == "bool"):
                    out.append(Violation("C13", "is_x takes &self and returns bool", "C13:is-signature", "%s: %s" % (nm, sg), where(info, "EnumIs")))
            for nm in fns:
                if nm.startswith("is_") and nm not in expected:
                    v = next((x for x in es.variants if "is_" + S.snakify(x.name) == nm), None)
                    cause = "disabled" if (v and v.disabled) else "unexpected-name"
                    out.append(Violation("C13", "no predicate for a disabled variant / no stray predicate", "C13:is-extra:%s" % cause, "unexpected fn %s" % nm, where(info, "EnumIs", {"fn": nm})))
        if gt:
            fns = {}
            for imp in gt.impls(inherent=True):
                for a in imp["assoc"]:
                    if a["kind"] == "fn":
                        fns[a["name"]] = a
            for v in es.enabled():
                if v.kind != "tuple":
                    continue
                base = "try_as_" + S.snakify(v.name)
                sv = semv.get(v.name)
                ftys = [f["ty"]["s"] for f in sv["fields"]] if sv else [f.ty for f in v.fields]
                for suffix, recv, pre in (("", None, ""), ("_ref", ["shared"], "&"), ("_mut", ["mut"], "&mut ")):
                    nm = base + suffix
                    rows += 1
                    classes.add("try_as%s/arity=%d" % (suffix, len(v.fields)))
                    f = fns.get(nm)
                    if f is None:
                        out.append(Violation("C13", "try_as_x / _ref / _mut exist for every enabled tuple variant", "C13:try_as-missing", "no fn %s (have %s)" % (nm, sorted(fns)[:6]), where(info, "EnumTryAs", {"variant": v.name})))
                        continue
                    sg = f["sig"]
                    rin = sg["inputs"][0] if sg["inputs"] else {}
                    if rin.get("refs") != recv or rin.get("adt") != info.def_path:
                        out.append(Violation("C13", "receiver mode: by value, by shared reference, by mutable reference", "C13:try_as-receiver", "%s takes %s" % (nm, rin.get("s")), where(info, "EnumTryAs")))
                    outp = sg["output"]
                    inner = (outp.get("targs") or [{}])[0] if outp.get("adt") == "core::option::Option" else None
                    exp_tys = [(pre + t) for t in ftys]
                    got_tys = None
                    if inner is not None:
                        if len(ftys) == 1:
                            got_tys = [inner.get("s")]
                        else:
                            got_tys = [x.get("s") for x in inner.get("tuple", [])] if "tuple" in inner else None
                    norm = lambda s: re.sub(r"&'[a-z_0-9]+ ", "&", s or "").replace("&'_ ", "&")
                    if got_tys is None or [norm(x) for x in got_tys] != [norm(x) for x in exp_tys]:
                        out.append(Violation("C13", "the payload types are returned unchanged, in order", "C13:try_as-return-type", "%s returns %s, expected Option<(%s)>" % (nm, outp.get("s"), ", ".join(exp_tys)), where(info, "EnumTryAs")))
                    ok = False
                    wrong_variant = None
                    try:
                        s_, t = H.tail_of_body(f["body"]["tree"])
                        m = H.match_on(t)
                        if m and not s_ and H.is_self_scrutinee(m["scrut"], 0) and len(m["arms"]) == 2:
                            a0, a1 = m["arms"]
                            vp = H.variant_pat(a0["pat"])
                            if vp and vp.shape in ("tuple", "unit") and not vp.rest and H.is_wild(a1["pat"]) and a0.get("guard") is None and a1.get("guard") is None:
                                b1 = H.strip(a1["body"])
                                none_ok = isinstance(b1, dict) and b1.get("def") == T.NONE
                                ids = [(H.binding(x) or {}).get("id") for x in vp.subs]
                                co = H.call_of(a0["body"])
                                if co and co[0].get("def") == T.SOME and len(co[1]) == 1 and none_ok and None not in ids and len(ids) == len(v.fields):
                                    r = H.strip(co[1][0])
                                    if len(ids) == 1:
                                        elems = [r]
                                    else:
                                        elems = r.get("elems") if isinstance(r, dict) and r.get("k") == "tup" else None
                                    if elems is not None and len(elems) == len(ids) and all(H.is_local(e, binding_id=i_) for e, i_ in zip(elems, ids)):
                                        if vp.adt == info.def_path and vp.variant == v.name:
                                            ok = True
                                        else:
                                            wrong_variant = vp.variant
                                    elif elems is not None and len(elems) == len(ids) and sorted((H.strip(e) or {}).get("id", -1) for e in elems) == sorted(ids):
                                        out.append(Violation("C13", "all fields are returned in order", "C13:try_as-field-order", "%s returns %s for pattern %s" % (nm, H.brief(r), H.render_pat(a0["pat"])), where(info, "EnumTryAs", {"fn": nm})))
                                        continue
                    except Unrecognised:
                        pass
                    if not ok and not wrong_variant:
                        try:
                            r_ = try_as_tree(f, v, [x.name for x in es.variants], T.group_fns(gt, info))
                            if r_ == "ok":
                                ok = True
                            elif r_[0] == "wrong":
                                wrong_variant = r_[1]
                            elif r_[0] == "order":
                                out.append(Violation("C13", "all fields are returned in order", "C13:try_as-field-order", "%s returns %s" % (nm, r_[1]), where(info, "EnumTryAs", {"fn": nm})))
                                continue
                        except Unrecognised:
                            pass
                    if wrong_variant:
                        out.append(Violation("C13", "try_as_x returns Some exactly for variant x", "C13:try_as-wrong-variant", "%s matches %s" % (nm, wrong_variant), where(info, "EnumTryAs", {"fn": nm})))
                    elif not ok:
                        out.append(Violation("C13", "try_as_x is `match self { E::X(a, b..) => Some((a, b..)), _ => None }`", "C13:try_as-body", "%s is %s" % (nm, H.brief(f["body"]["tree"], 200)), where(info, "EnumTryAs", {"fn": nm})))
            for nm in fns:
                if nm.startswith("try_as_"):
                    stem = re.sub(r"_(ref|mut)$", "", nm)
                    cands = [x for x in es.variants if "try_as_" + S.snakify(x.name) in (stem, nm)]
                    if not cands:
                        out.append(Violation("C13", "no stray try_as method", "C13:try_as-extra:unexpected-name", "unexpected fn %s" % nm, where(info, "EnumTryAs")))
                    elif all(x.disabled for x in cands):
                        out.append(Violation("C13", "no try_as method for a disabled variant", "C13:try_as-extra:disabled", "fn %s for disabled variant" % nm, where(info, "EnumTryAs")))
        if len(samples) < 4:
            samples.append({"enum": info.where(), "is": sorted(k for k in (fns if gi and not gt else {}))[:6] if False else None,
                            "expected_is": ["is_" + S.snakify(v.name) for v in es.enabled()][:6]})
    cov = {"programs": programs, "disagreements_checked": len(out), "samples": samples, "evaluations": rows, "distinct_nontrivial": len(classes), "skipped": skipped,
           "rule": "exactly one is_<snakify(V)>(&self)->bool per enabled variant whose single positive pattern resolves to V (payload ignored), none for disabled, names distinct; per enabled tuple variant three try_as methods with receivers self/&self/&mut self, return types Option<(T..)>/(&T..)/(&mut T..), pattern binding every field positionally and returning the same bindings in order, `_ => None`"}
    return out, cov


# ------------------------------------------------------------------------------------------------
# C14
# ------------------------------------------------------------------------------------------------

def C14(infos: List[EnumInfo], ctx: dict):
    out: List[Violation] = []
    programs = 0
    rows = 0
    classes = set()
    samples = []
    skipped = []
    for info in infos:
        if not info.group("EnumMessage"):
            continue
        if info.spec is None:
            skipped.append({"enum": info.where(), "reason": info.skip_reason})
            continue
        es = info.spec
        D = "EnumMessage"
        try:
            mt = message_tables(info)
        except Unrecognised as e:
            out.append(unrec("C14", info, D, e))
            continue
        programs += 1
        sample = {}
        for fn, specf, label in (("get_message", es.message, "message"), ("get_detailed_message", es.detailed, "detailed"), ("get_documentation", es.documentation, "docs")):
            vm = mt.get(fn)
            if vm is None:
                out.append(Violation("C14", "all four lookups are generated for the enum", "C14:lookup-not-generated:%s" % fn,
                                     "%s is not generated for %s (a trait default would decide its result)" % (fn, info.name), where(info, D)))
                continue
            if not vm.scrut_ok:
                out.append(Violation("C14", "lookup matches on the receiver", "C14:scrutinee", "%s does not match on self" % fn, where(info, D)))
            for v in es.variants:
                rows += 1
                classes.add("%s/%s/docs=%d/msg=%s/det=%s/%s" % (label, v.kind, min(len(v.docs), 3), v.message is not None, v.detailed_message is not None, "disabled" if v.disabled else "en"))
                r = T.first_arm_for(vm, v.name)
                want = specf(v)
                if r is None:
                    out.append(Violation("C14", "lookup covers every variant", "C14:missing-arm:%s" % label, "%s has no arm for %s" % (fn, v.name), where(info, D)))
                    continue
                got = T.option_str(r[1])
                gv = got[1] if got[0] == "some" else (None if got[0] == "none" else ("?", got[1]))
                if gv != want:
                    if v.disabled:
                        cause = "disabled-not-none"
                    elif label == "detailed" and v.detailed_message is None and v.message is not None:
                        cause = "fallback-to-message"
                    elif label == "docs":
                        cause = "doc-assembly:%s" % ("multi" if len(v.docs) > 1 else "single")
                    else:
                        cause = "value"
                    out.append(Violation("C14", "each lookup returns exactly the declared text", "C14:%s:%s" % (label, cause),
                                         "%s for %s returns %r, expected %r" % (fn, v.name, gv, want), where(info, D, {"variant": v.name, "found": gv, "expected": want, "doc_lines": v.docs})))
                if label == "docs" and want and len(sample) < 2:
                    sample[v.name] = {"doc_lines": v.docs, "returned": gv}
        vm = mt["get_serializations"]
        for v in es.variants:
            rows += 1
            r = T.first_arm_for(vm, v.name)
            if r is None:
                out.append(Violation("C14", "get_serializations covers every variant", "C14:serializations-missing-arm", "no arm for %s" % v.name, where(info, D)))
                continue
            arr = T.static_str_array(r[1])
            if arr is None:
                out.append(Violation("C14", "get_serializations returns a static array of literals", "C14:serializations-shape", "arm for %s: %s" % (v.name, H.brief(r[1])), where(info, D)))
                continue
            if es.names_modelled() and sorted(arr) != sorted(es.spellings(v)):
                out.append(Violation("C14", "get_serializations returns exactly the spellings of the variant (disabled or not)", "C14:serializations:%s" % ("disabled" if v.disabled else "enabled"),
                                     "%s: %r, expected %r" % (v.name, arr, es.spellings(v)), where(info, D, {"variant": v.name})))
        if len(samples) < 4 and sample:
            samples.append({"enum": info.where(), "documentation": sample})
    cov = {"programs": programs, "disagreements_checked": len(out), "samples": samples or [{"note": "no documented variant sampled"}], "evaluations": rows, "distinct_nontrivial": len(classes), "skipped": skipped,
           "rule": "for each of get_message / get_detailed_message / get_documentation and every variant (disabled included) the first arm matching the variant yields the oracle's value; get_serializations arm is a static array equal to spellings(v)"}
    return out, cov


# ------------------------------------------------------------------------------------------------
# C15
# ------------------------------------------------------------------------------------------------

def prop_tables_shape(f: dict, fn: str, ty: str, variants: List[str]) -> Dict[str, Optional[Dict[str, Any]]]:
    """variant -> {key: value} for a getter of the emitted shape `match self { V => match prop { "k" => Some(x), _ => None } }`."""
    vm = T.variant_match_shape(f, 0)
    tables: Dict[str, Optional[Dict[str, Any]]] = {}
    for vname in variants:
        r = T.first_arm_for(vm, vname)
        if r is None:
            tables[vname] = None
            continue
        body = H.strip(r[1])
        if isinstance(body, dict) and body.get("def") == T.NONE:
            tables[vname] = {}
            continue
        m = H.match_on(body)
        if m is None or not H.is_local(m["scrut"], param=1):
            raise Unrecognised("per-variant lookup is not a match on the key parameter: %s arm for %s: %s" % (fn, vname, H.brief(body)), body)
        got: Dict[str, Any] = {}
        wild_ok = False
        bad = False
        for arm in m["arms"]:
            if H.is_wild(arm["pat"]) and arm.get("guard") is None:
                b = H.strip(arm["body"])
                wild_ok = isinstance(b, dict) and b.get("def") == T.NONE
                break
            if arm.get("guard") is not None:
                bad = True
                break
            for alt in H.pat_alternatives(arm["pat"]):
                key = H.lit_value(alt.get("lit"), "str") if alt.get("k") == "plit" else None
                o = T.option_str(arm["body"])
                if key is None or o[0] != "some" or o[2] != ty:
                    bad = True
                    break
                got.setdefault(key, o[1])
        if bad or not wild_ok:
            raise Unrecognised("per-variant lookup is not {key literal => Some(literal)} + `_ => None`: %s arm for %s: %s" % (fn, vname, H.brief(body, 240)), body)
        tables[vname] = got
    return tables


def prop_tables_tree(f: dict, fn: str, ty: str, variants: List[str], keys: List[str], fns) -> Tuple[Dict[str, Dict[str, Any]], List[Tuple[str, str, str]]]:
    """The same table through the decision-tree normaliser (any shape built from the atoms of symeval): the getter is
    evaluated for every variant on one string per cell of the partition its string comparisons induce."""
    import symeval as SE
    fns2 = dict(fns or {})
    fns2.pop(f.get("def"), None)
    b = SE.Builder(f, {0: "self", 1: "str"}, fns2)
    tree = b.tree()
    ats = SE.atoms(tree)
    bad = [a for a in ats if a[0] not in ("var", "seq", "slen")]
    if bad:
        raise Unrecognised("%s branches on %r" % (fn, bad[0]))
    reps = SE.string_reps(ats, keys)
    tables: Dict[str, Dict[str, Any]] = {}
    irregular: List[Tuple[str, str, str]] = []
    for vname in variants:
        got: Dict[str, Any] = {}
        for kind, sx in reps:
            leaf = SE.run(tree, {"variant": vname, "s": sx})
            if leaf.diverge:
                raise Unrecognised("%s(%s, %r) does not return: %s" % (fn, vname, sx, leaf.diverge))
            o = T.option_str(leaf.value)
            if o[0] == "none":
                continue
            if o[0] != "some" or o[2] != ty:
                raise Unrecognised("%s(%s, %r) is neither None nor Some(literal of type %s): %s" % (fn, vname, sx, ty, H.brief(leaf.value, 80)), leaf.value)
            if kind == "lit":
                got[sx] = o[1]
            else:
                irregular.append((vname, sx, "Some(%r)" % (o[1],)))
        tables[vname] = got
    return tables, irregular


def C15(infos: List[EnumInfo], ctx: dict):
    out: List[Violation] = []
    programs = 0
    rows = 0
    classes = set()
    samples = []
    skipped = []
    for info in infos:
        g = info.group("EnumProperty")
        if not g:
            continue
        if info.spec is None:
            skipped.append({"enum": info.where(), "reason": info.skip_reason})
            continue
        es = info.spec
        D = "EnumProperty"
        imps = g.impls("EnumProperty")
        if len(imps) != 1:
            out.append(Violation("C15", "one EnumProperty impl", "C15:impl-count", "%d impls" % len(imps), where(info, D)))
            continue
        if any(lit.get("ty") not in ("str", "int", "bool") for v in es.variants for _k, lit in v.props):
            skipped.append({"enum": info.where(), "reason": "property literal of an unsupported kind (C20's domain)"})
            continue
        programs += 1
        sample = {}
        for fn, ty in (("get_str", "str"), ("get_int", "int"), ("get_bool", "bool")):
            f = fn_of(imps[0], fn)
            if f is None:
                # trait default returns None: only acceptable when no variant declares a property of this type
                if any(es.props_of(v, ty) for v in es.variants):
                    out.append(Violation("C15", "getter is generated", "C15:missing:%s" % fn, "%s not generated" % fn, where(info, D)))
                continue
            try:
                try:
                    tables = prop_tables_shape(f, fn, ty, [v.name for v in es.variants])
                except Unrecognised as e1:
                    try:
                        keys = sorted(set(k for v in es.variants for t2 in ("str", "int", "bool") for k in es.props_of(v, t2)))
                        tables, irregular = prop_tables_tree(f, fn, ty, [v.name for v in es.variants], keys, T.group_fns(g, info))
                    except Unrecognised as e2:
                        raise Unrecognised("%s [decision-tree normaliser: %s]" % (e1, e2), getattr(e1, "node", None))
                    for vn, sx, what in irregular:
                        out.append(Violation("C15", "a string that is not a declared key of the variant yields None", "C15:%s:non-key-accepted" % fn,
                                             "%s(%s, %r) is %s" % (fn, vn, sx, what), where(info, D, {"variant": vn, "input": sx})))
            except Unrecognised as e:
                out.append(unrec("C15", info, D, e))
                continue
            for v in es.variants:
                want = es.props_of(v, ty)
                classes.add("%s/%s/n=%d/groups=%d/%s" % (ty, v.kind, min(len(want), 3), min(sum(1 for _ in v.props), 3), "disabled" if v.disabled else "en"))
                got = tables.get(v.name)
                if got is None:
                    out.append(Violation("C15", "lookup covers every variant", "C15:missing-arm", "%s has no arm for %s" % (fn, v.name), where(info, D)))
                    continue
                rows += 1 + len(want)
                if got != want:
                    if v.disabled:
                        cause = "disabled-not-none"
                    elif set(got) - set(want):
                        other_ty = [t2 for t2 in ("str", "int", "bool") if t2 != ty and (set(got) - set(want)) & set(es.props_of(v, t2))]
                        cause = "key-of-other-type" if other_ty else "extra-key"
                    elif set(want) - set(got):
                        cause = "missing-key:%s" % ("multi-group" if sum(1 for a in info.adt["variants"][v.index]["attrs"] if "props" in a.get("text", "")) > 1 else "single-group")
                    else:
                        cause = "value:%s" % ty
                    out.append(Violation("C15", "get_<type>(k) == Some(x) iff the variant declares k = x with x of that type", "C15:%s:%s" % (fn, cause),
                                         "%s for %s is %r, expected %r" % (fn, v.name, got, want), where(info, D, {"variant": v.name, "found": got, "expected": want})))
                if want and len(sample) < 3:
                    sample["%s/%s" % (v.name, fn)] = got
        if len(samples) < 4 and sample:
            samples.append({"enum": info.where(), "tables": sample})
    cov = {"programs": programs, "disagreements_checked": len(out), "samples": samples or [{"note": "no property sampled"}], "evaluations": rows, "distinct_nontrivial": len(classes), "skipped": skipped,
           "rule": "for each getter and variant, the inner `match prop` is {key literal -> Some(literal of the getter's type)} u {_ -> None}; the map equals the oracle's merge of all props(..) groups bucketed by literal type (ints by value as i64); disabled variants and unknown keys reach None"}
    return out, cov
