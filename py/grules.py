"""Engine G: rules over strum_macros' own resolved program (facts: gen_fns of crate strum_macros).

They hold for every input program of the macro, but express structural necessary conditions only."""
from __future__ import annotations
import re
from typing import Any, Dict, List, Optional, Set, Tuple
import shapes as H
from common import ToolError


class Gen:
    """Index over the generator facts."""

    def __init__(self, units: List[dict]):
        cands = [u for u in units if u.get("crate") == "strum_macros" and "gen_fns" in u and not u.get("is_test")]
        if not cands:
            cands = [u for u in units if u.get("crate") == "strum_macros" and "gen_fns" in u]
        if not cands:
            raise ToolError("no generator-mode facts for crate strum_macros")
        self.unit = cands[0]
        self.fns: Dict[str, dict] = {}
        for f in self.unit["gen_fns"]:
            if f.get("in_test"):
                continue
            self.fns[f["path"]] = f
        self.entries = {f["entry_derive"]: f for f in self.fns.values() if f.get("entry_derive")}
        # trait method -> impl fns
        self.impls_of: Dict[str, List[str]] = {}
        for p, f in self.fns.items():
            if f.get("impl_trait"):
                self.impls_of.setdefault(f["impl_trait"] + "::" + f["name"], []).append(p)
        self._edges: Dict[str, Set[str]] = {}
        for p, f in self.fns.items():
            self._edges[p] = self._callees(f)
        self._reach_cache: Dict[str, Set[str]] = {}

    def _callees(self, f: dict) -> Set[str]:
        out: Set[str] = set()
        for n in H.walk(f["body"]["tree"]):
            d = None
            if n.get("k") == "path" and n.get("crate") == "strum_macros" and n.get("dk") in ("Fn", "AssocFn"):
                d = n.get("def")
            elif n.get("k") == "mcall" and n.get("crate") == "strum_macros":
                d = n.get("def")
            if d is None:
                continue
            if d in self.fns:
                out.add(d)
            for imp in self.impls_of.get(d, []):
                out.add(imp)
            # generic calls `T::parse` / `.parse::<T>()` into local Parse / FromStr impls
        # syn's generic parsing entry points: every local `Parse::parse` / `FromStr::from_str` impl whose
        # Self type is named in the type of a call in this fn is considered called
        for n in H.walk(f["body"]["tree"]):
            if n.get("k") in ("call", "mcall", "path") and isinstance(n.get("ty"), str):
                t = n["ty"]
                for p2, g in self.fns.items():
                    if g.get("impl_trait") in ("syn::parse::Parse", "core::str::traits::FromStr") and g["name"] in ("parse", "from_str"):
                        st = g.get("impl_self", "")
                        if st and re.search(r"\b%s\b" % re.escape(st.split("::")[-1]), t):
                            out.add(p2)
        return out

    def reach(self, root: str) -> Set[str]:
        if root in self._reach_cache:
            return self._reach_cache[root]
        seen = {root}
        stack = [root]
        while stack:
            x = stack.pop()
            for y in self._edges.get(x, ()):
                if y not in seen:
                    seen.add(y)
                    stack.append(y)
        self._reach_cache[root] = seen
        return seen

    def reach_from_entries(self, include_deprecated: bool = True) -> Dict[str, Set[str]]:
        """fn path -> set of entry derives that reach it."""
        out: Dict[str, Set[str]] = {}
        for d, f in self.entries.items():
            if not include_deprecated and f.get("deprecated"):
                continue
            for p in self.reach(f["path"]):
                out.setdefault(p, set()).add(d)
        return out

    def short(self, path: str) -> str:
        return path.split("::")[-1] if not path.startswith("<") else path


# ------------------------------------------------------------------------------------------------
# expression provenance ("receiver-source signature")
# ------------------------------------------------------------------------------------------------

def short_def(d: Optional[str]) -> str:
    if not d:
        return "?"
    d = re.sub(r"::<[^>]*>", "", d)
    parts = d.split("::")
    return "::".join(parts[-2:]) if len(parts) >= 2 else d


def source_sig(e: Any, depth: int = 3) -> str:
    e = H.strip(e)
    if not isinstance(e, dict) or depth == 0:
        return "_"
    k = e.get("k")
    if k in ("ref", "deref"):
        return source_sig(e["e"], depth)
    if k == "mcall":
        nm = short_def(e.get("def"))
        if e["name"] in ("as_ref", "as_mut", "as_str", "clone", "iter", "borrow", "to_string", "as_deref"):
            return "%s(%s)" % (e["name"], source_sig(e["recv"], depth - 1))
        return "%s(%s)" % (nm, source_sig(e["recv"], depth - 1))
    if k == "call":
        f = H.strip(e["f"])
        if isinstance(f, dict) and f.get("k") == "path":
            a = source_sig(e["args"][0], depth - 1) if e["args"] else ""
            return "%s(%s)" % (short_def(f.get("def")), a)
        return "call"
    if k == "field":
        bt = (e.get("base_ty") or {}).get("adt") or (e.get("base_ty") or {}).get("s") or "?"
        return "field %s.%s" % (bt.split("::")[-1], e["name"])
    if k == "local":
        t = e.get("ty") or "?"
        t = re.sub(r"'[a-z_0-9]+ ", "", t)
        return "local:%s" % re.sub(r"[a-z_0-9]+::", "", t)
    if k == "lit":
        return "lit"
    if k == "try":
        return "try(%s)" % source_sig(e["e"], depth - 1)
    if k == "macro":
        return "%s!" % e["name"]
    if k == "index":
        return "index(%s)" % source_sig(e["e"], depth - 1)
    if k == "bin":
        return "bin"
    return k or "_"


PANIC_METHODS = {
    "core::option::Option::<T>::unwrap": "unwrap", "core::option::Option::<T>::expect": "expect",
    "core::result::Result::<T, E>::unwrap": "unwrap", "core::result::Result::<T, E>::expect": "expect",
    "core::result::Result::<T, E>::unwrap_err": "unwrap_err", "core::result::Result::<T, E>::expect_err": "expect_err",
    "core::option::Option::<T>::unwrap_unchecked": "unwrap_unchecked",
}
PANIC_FNS_PREFIX = [
    ("proc_macro2::Ident::new", "Ident::new"), ("proc_macro2::Ident::new_raw", "Ident::new_raw"), ("quote::__private::mk_ident", "format_ident!"),
    ("syn::parse_quote::parse", "parse_quote!"), ("alloc::vec::Vec::<T, A>::insert", "Vec::insert"), ("alloc::vec::Vec::<T, A>::remove", "Vec::remove"),
    ("alloc::vec::Vec::<T, A>::swap_remove", "Vec::swap_remove"), ("alloc::vec::Vec::<T, A>::split_off", "Vec::split_off"), ("alloc::vec::Vec::<T, A>::drain", "Vec::drain"),
    ("alloc::string::String::insert", "String::insert"), ("alloc::string::String::remove", "String::remove"), ("core::str::<impl str>::split_at", "str::split_at"),
    ("core::slice::<impl [T]>::split_at", "slice::split_at"), ("core::cell::RefCell::<T>::borrow", "RefCell::borrow"), ("core::cell::RefCell::<T>::borrow_mut", "RefCell::borrow_mut"),
    # of proc_macro2::Literal's constructors only the float ones panic (on a non-finite value); string / byte-string / integer
    # constructors, set_span and span do not
    ("proc_macro2::Literal::f32_", "Literal::f32_*"), ("proc_macro2::Literal::f64_", "Literal::f64_*"), ("proc_macro2::TokenStream::from_str", None),
]
PANIC_MACROS = {"panic", "todo", "unimplemented", "unreachable", "assert", "assert_eq", "assert_ne", "debug_assert", "debug_assert_eq", "debug_assert_ne"}
INT_TYPES = {"usize", "isize", "u8", "u16", "u32", "u64", "u128", "i8", "i16", "i32", "i64", "i128"}


class Site:
    def __init__(self, fn: str, kind: str, sig: str, at: str, text: str, auto: Optional[str] = None):
        self.fn = fn
        self.kind = kind
        self.sig = sig
        self.at = at
        self.text = text
        self.auto = auto          # reason when the site is infeasible by its own shape (no vetting needed)

    def key(self) -> str:
        return "%s@%s" % (self.kind, self.sig)


def panic_sites(gen: Gen, f: dict) -> List[Site]:
    out: List[Site] = []
    fn = f["path"]

    def visit(e: Any, in_macro: Optional[str]):
        if isinstance(e, list):
            for x in e:
                visit(x, in_macro)
            return
        if not isinstance(e, dict):
            return
        k = e.get("k")
        if k == "macro":
            nm = e.get("name")
            if nm in PANIC_MACROS:
                # describe the condition/argument for asserts
                out.append(Site(fn, nm + "!", _macro_sig(e), e.get("at") or _first_at(e), H.brief(e, 120)))
                return  # the expansion's own internals are not sites
            if nm in ("format_ident",):
                out.append(Site(fn, "format_ident!", _fmt_ident_sig(e), _first_at(e), H.brief(e, 120), _fmt_ident_auto(e, f["body"]["tree"])))
                return
            if nm == "parse_quote":
                toks_ = quote_tokens(e)
                const_tpl = bool(toks_) and not any(t_[0] == "interp" for t_ in toks_)
                out.append(Site(fn, "parse_quote!", _parse_quote_sig(e), _first_at(e), H.brief(e, 120),
                                "parse_quote! of a constant token template: it parses the same tokens on every expansion, so it fails for every input or for none" if const_tpl else None))
                return
            if nm in ("quote", "quote_spanned", "format", "format_args", "write", "writeln", "matches", "vec", "parse_macro_input", "custom_keyword", "parenthesized"):
                # template construction / parsing helpers: look at interpolated expressions only
                for v in e.values():
                    visit(v, nm)
                return
        if k == "mcall" and e.get("def") in PANIC_METHODS:
            out.append(Site(fn, PANIC_METHODS[e["def"]], source_sig(e["recv"]), e.get("at", ""), H.brief(e, 120)))
        elif k in ("mcall", "call"):
            d = e.get("def") if k == "mcall" else (H.strip(e["f"]) or {}).get("def") if isinstance(H.strip(e["f"]), dict) else None
            if d:
                for pref, label in PANIC_FNS_PREFIX:
                    if d.startswith(pref) and label:
                        args = ([e["recv"]] if k == "mcall" else []) + list(e["args"])
                        out.append(Site(fn, label, ",".join(source_sig(a, 2) for a in args[:2]), e.get("at", ""), H.brief(e, 120)))
                        break
        elif k == "index":
            out.append(Site(fn, "index", "%s[%s]" % (source_sig(e["e"], 2), source_sig(e["idx"], 2)), e.get("at", ""), H.brief(e, 120)))
        elif k == "bin" and e.get("op") in ("+", "-", "*", "/", "%", "<<", ">>") and (e.get("lty") in INT_TYPES) and not e.get("overloaded"):
            if not (H.lit_value(e["l"], "int") is not None and H.lit_value(e["r"], "int") is not None):
                auto = None
                lits = [H.lit_value(e["l"], "int"), H.lit_value(e["r"], "int")]
                if e["op"] == "+" and e.get("lty") in ("usize", "u64") and any(v is not None and 0 <= v <= 65536 for v in lits):
                    auto = "adding a small constant to a 64-bit counter / length cannot overflow (would need 2^64 elements)"
                out.append(Site(fn, "arith" + e["op"], "%s %s %s" % (source_sig(e["l"], 2), e["op"], source_sig(e["r"], 2)), e.get("at", ""), H.brief(e, 120), auto))
        elif k == "assign_op" and e.get("op") in ("+=", "-=", "*=", "/=", "%=", "<<=", ">>="):
            auto = None
            rv = H.lit_value(e["r"], "int")
            lt = (H.strip(e["l"]) or {}).get("ty") if isinstance(H.strip(e["l"]), dict) else None
            if e["op"] == "+=" and rv is not None and 0 <= rv <= 65536 and lt in ("usize", "u64"):
                auto = "incrementing a 64-bit counter by a small constant cannot overflow (would need 2^64 steps)"
            out.append(Site(fn, "arith" + e["op"], "%s %s %s" % (source_sig(e["l"], 2), e["op"], source_sig(e["r"], 2)), e.get("at", ""), H.brief(e, 120), auto))
        for key, v in e.items():
            if key in ("ty", "at", "base_ty"):
                continue
            visit(v, in_macro)

    visit(f["body"]["tree"], None)
    return out


def _first_at(e: Any) -> str:
    for n in H.walk(e):
        if n.get("at"):
            return n["at"]
    return ""


def _macro_sig(e: dict) -> str:
    # assert!(cond): the condition is the scrutinee of the expansion's `if !cond`
    for n in H.walk(e.get("e")):
        if n.get("k") == "un" and n.get("op") == "!":
            return source_sig(n["e"], 3)
    lits = [n.get("v") for n in H.walk(e.get("e")) if n.get("k") == "lit" and n.get("ty") == "str"]
    fa = [n for n in H.walk(e.get("e")) if n.get("k") == "fmt_args"]
    if fa and fa[0].get("fa"):
        return "msg:%s" % ((fa[0]["fa"].get("fmt_str") or {}).get("v") or "")[:40]
    return "msg:%s" % (lits[0][:40] if lits else "")


def _fmt_ident_sig(e: dict) -> str:
    own = _own_fmt_args(e)
    fa = [own] if own is not None else [n for n in H.walk(e.get("e")) if n.get("k") == "fmt_args"]
    if fa and fa[0].get("fa"):
        f = fa[0]["fa"]
        return "%s <- %s" % ((f.get("fmt_str") or {}).get("v"), ",".join(a.get("expr", "?")[:30] for a in f.get("args", [])))
    lits = [n.get("v") for n in H.walk(e.get("e")) if n.get("k") == "lit" and n.get("ty") == "str"]
    return "lit:%s" % (lits[0] if lits else "?")


def _own_fmt_args(e: dict) -> Optional[dict]:
    """The fmt_args node of format_ident!'s own template: the one that is not inside an argument
    (arguments are wrapped in IdentFragmentAdapter(..) by the expansion and may contain format! calls of their own)."""
    inside = set()
    for n in H.walk(e.get("e")):
        if n.get("k") == "call":
            f = H.strip(n["f"])
            if isinstance(f, dict) and str(f.get("def", "")).endswith("IdentFragmentAdapter"):
                for a in n["args"]:
                    for x in H.walk(a):
                        inside.add(id(x))
    for n in H.walk(e.get("e")):
        if n.get("k") == "fmt_args" and id(n) not in inside:
            return n
    return None


IDENT_FMT = re.compile(r"^([A-Za-z_][A-Za-z0-9_]*|\{\})([A-Za-z0-9_]|\{\})*$")


def _let_init(fn_tree: Any, local_id: int) -> Optional[Any]:
    """Initialiser of the unique `let <binding> = init;` that introduces a local (None if not exactly one)."""
    found = []
    for n in H.walk(fn_tree):
        if n.get("k") == "let" and isinstance(n.get("pat"), dict) and n["pat"].get("k") == "bind" and n["pat"].get("id") == local_id and n.get("init") is not None:
            found.append(n["init"])
    return found[0] if len(found) == 1 else None


def _ident_shaped(a: Any, fn_tree: Any, leading: bool, depth: int = 0) -> bool:
    """Is the string the expression formats to an identifier fragment (a whole identifier when `leading`)?"""
    a_ = H.strip(a)
    while isinstance(a_, dict) and a_.get("k") in ("ref", "deref"):
        a_ = H.strip(a_["e"])
    if not isinstance(a_, dict) or depth > 3:
        return False
    t = a_.get("ty") or ""
    if a_.get("k") in ("local", "field") and re.search(r"\bIdent$", t):
        return True
    co = H.call_of(a_)
    if co and str(co[0].get("def", "")).endswith("snakify"):
        return True
    if t.lstrip("&") in INT_TYPES:
        return not leading          # decimal digits: fine anywhere but at the start
    if a_.get("k") == "macro" and a_.get("name") == "format":
        fa = [n for n in H.walk(a_.get("e")) if n.get("k") == "fmt_args"]
        if not fa or not fa[0].get("fa"):
            return False
        fmt = (fa[0]["fa"].get("fmt_str") or {}).get("v") or ""
        if not IDENT_FMT.match(fmt):
            return False
        args = []
        for n in H.walk(a_.get("e")):
            if n.get("k") == "call":
                f = H.strip(n["f"])
                if isinstance(f, dict) and re.search(r"Argument(::<'_>)?::new_display$", str(f.get("def", ""))) and n["args"]:
                    args.append(n["args"][0])
        if len(args) != fmt.count("{}"):
            return False
        lead = fmt.startswith("{}")
        return all(_ident_shaped(x, fn_tree, leading and lead and i == 0, depth + 1) for i, x in enumerate(args))
    if a_.get("k") == "local" and t.lstrip("&") in ("alloc::string::String", "std::string::String", "String", "str"):
        init = _let_init(fn_tree, a_.get("id"))
        if init is not None:
            return _ident_shaped(init, fn_tree, leading, depth + 1)
    return False


def _fmt_ident_auto(e: dict, fn_tree: Any = None) -> Optional[str]:
    """format_ident! cannot panic when the format string is identifier shaped and every argument is an identifier
    fragment: a proc_macro2/syn Ident, the crate's own snake-casing of an identifier, an integer after the first
    character, or a `format!` of such fragments with an identifier-shaped template (directly or through one `let`)."""
    own = _own_fmt_args(e)
    if own is None or not own.get("fa"):
        return None
    fmt = (own["fa"].get("fmt_str") or {}).get("v") or ""
    if not IDENT_FMT.match(fmt):
        return None
    frags = []
    for n in H.walk(e.get("e")):
        if n.get("k") == "call":
            f = H.strip(n["f"])
            if isinstance(f, dict) and str(f.get("def", "")).endswith("IdentFragmentAdapter") and n["args"]:
                frags.append(n["args"][0])
    if not frags:
        return None
    lead = fmt.startswith("{}")
    for i, a in enumerate(frags):
        if not _ident_shaped(a, fn_tree, lead and i == 0):
            return None
    return "identifier-shaped format string whose arguments are identifier fragments (Ident / snake-cased identifier / integer / format! of those)"


def _parse_quote_sig(e: dict) -> str:
    toks = quote_tokens(e)
    return " ".join(t[1] if t[0] != "interp" else "#" + t[1] for t in toks[:6])


# ------------------------------------------------------------------------------------------------
# quote! templates -> token sequences
# ------------------------------------------------------------------------------------------------

PUSH_PUNCT = {
    "push_colon2": "::", "push_bang": "!", "push_lt": "<", "push_gt": ">", "push_comma": ",", "push_semi": ";", "push_colon": ":", "push_eq": "=",
    "push_and": "&", "push_fat_arrow": "=>", "push_rarrow": "->", "push_pound": "#", "push_dot": ".", "push_dot2": "..", "push_star": "*", "push_add": "+",
    "push_sub": "-", "push_underscore": "_", "push_or": "|", "push_eq_eq": "==", "push_question": "?", "push_lifetime": "'", "push_at": "@", "push_and_and": "&&",
    "push_or_or": "||", "push_ne": "!=", "push_le": "<=", "push_ge": ">=", "push_div": "/", "push_rem": "%", "push_shl": "<<", "push_shr": ">>", "push_dot3": "...",
    "push_dot_dot_eq": "..=", "push_add_eq": "+=", "push_sub_eq": "-=", "push_caret": "^", "push_tilde": "~", "push_dollar": "$",
}


def quote_tokens(e: Any) -> List[Tuple[str, str]]:
    """Flatten the expansion of one quote!/parse_quote! invocation into a token sequence.
    Tokens: ('ident', x) ('punct', p) ('lit', text) ('interp', expr) ('open', d) ('close', d) ('rep', '')."""
    out: List[Tuple[str, str]] = []

    def visit(n: Any):
        if isinstance(n, list):
            for x in n:
                visit(x)
            return
        if not isinstance(n, dict):
            return
        k = n.get("k")
        if k == "call":
            f = H.strip(n["f"])
            d = f.get("def") if isinstance(f, dict) else None
            if d and d.startswith("quote::__private::"):
                name = d.split("::")[-1]
                name = re.sub(r"_spanned$", "", name)
                if name in ("push_ident",):
                    v = H.lit_value(n["args"][-1], "str")
                    out.append(("ident", v if v is not None else "?"))
                    return
                if name in PUSH_PUNCT:
                    out.append(("punct", PUSH_PUNCT[name]))
                    return
                if name == "push_lifetime":
                    v = H.lit_value(n["args"][-1], "str")
                    out.append(("lit", v or "'?"))
                    return
                if name == "parse":
                    v = H.lit_value(n["args"][-1], "str")
                    out.append(("lit", v if v is not None else "?"))
                    return
                if name == "push_group":
                    delim = H.render(n["args"][-2]).split("::")[-1] if len(n["args"]) >= 2 else "?"
                    out.append(("open", delim))
                    visit(n["args"][-1])
                    out.append(("close", delim))
                    return
                if name.startswith("push_"):
                    out.append(("punct", name[5:]))
                    return
            if d == "quote::to_tokens::ToTokens::to_tokens":
                out.append(("interp", H.brief(n["args"][0], 60)))
                return
        if k == "mcall" and n.get("def") == "quote::to_tokens::ToTokens::to_tokens":
            out.append(("interp", H.brief(n["recv"], 60)))
            return
        if k == "loop":
            out.append(("rep", ""))
        for key, v in n.items():
            if key in ("ty", "at", "base_ty"):
                continue
            visit(v)

    visit(e.get("e") if isinstance(e, dict) and e.get("k") == "macro" else e)
    return out


def quote_macros(f: dict) -> List[dict]:
    """Outermost quote!/quote_spanned! invocations of a fn."""
    out = []

    def visit(n: Any):
        if isinstance(n, list):
            for x in n:
                visit(x)
            return
        if not isinstance(n, dict):
            return
        if n.get("k") == "macro" and n.get("name") in ("quote", "quote_spanned") and n.get("crate") == "quote":
            out.append(n)
            return
        for key, v in n.items():
            if key in ("ty", "at", "base_ty"):
                continue
            visit(v)

    visit(f["body"]["tree"])
    return out


# ------------------------------------------------------------------------------------------------
# G2: dropped syn::Result
# ------------------------------------------------------------------------------------------------

def is_syn_result(t: Optional[str]) -> bool:
    if not t:
        return False
    t = t.lstrip("&").replace("mut ", "")
    return t.startswith("core::result::Result<") and t.rstrip(">").endswith("syn::error::Error")


SWALLOW_METHODS = {"ok", "unwrap_or", "unwrap_or_default", "is_ok", "is_err", "err", "map_or", "map_or_else", "iter", "into_iter", "and", "or", "unwrap_or_else", "is_ok_and", "is_err_and", "or_else", "flatten"}


def _expr_ty(e: Any) -> Optional[str]:
    e = H.strip(e)
    if isinstance(e, dict):
        if e.get("k") == "mcall" or e.get("k") == "call":
            return e.get("ty")
        if e.get("k") in ("local", "path", "field", "match"):
            return e.get("ty")
        if e.get("k") == "macro":
            return _expr_ty(e.get("e"))
    return None


def producer_sig(e: Any) -> str:
    e = H.strip(e)
    if isinstance(e, dict) and e.get("k") == "mcall":
        return short_def(e.get("def"))
    if isinstance(e, dict) and e.get("k") == "call":
        f = H.strip(e["f"])
        return short_def(f.get("def")) if isinstance(f, dict) else "call"
    return source_sig(e, 2)


def producer_crate(e: Any) -> Optional[str]:
    """crate of the function whose Result an expression is (through `?`-free adapters such as .map / .and_then)"""
    e = H.strip(e)
    for _ in range(6):
        if not isinstance(e, dict):
            return None
        if e.get("k") == "mcall":
            if str(e.get("def", "")).startswith(("core::result::Result", "core::option::Option")):
                e = H.strip(e.get("recv"))
                continue
            return e.get("crate")
        if e.get("k") == "call":
            f_ = H.strip(e.get("f"))
            return f_.get("crate") if isinstance(f_, dict) else None
        if e.get("k") in ("ref", "deref", "block", "macro"):
            e = H.strip(e.get("e") if e.get("k") != "block" else e.get("tail"))
            continue
        return None
    return None


FOREIGN_PROBE = "Result of a syn / proc-macro2 parsing API used as a probe (\"is this a literal / a list / a type?\"): its Err is not one of strum's diagnostics"


def dropped_results(f: dict) -> List[Site]:
    out: List[Site] = []
    fn = f["path"]

    def site(kind: str, producer: Any, at: str, text: str) -> Site:
        cr = producer_crate(producer)
        auto = FOREIGN_PROBE if (cr is not None and cr != "strum_macros") else None
        return Site(fn, kind, producer_sig(producer), at, text, auto)

    def closure_converts(c: Any) -> bool:
        for n in H.walk(c):
            if n.get("k") == "mcall" and n.get("def") in ("syn::error::Error::to_compile_error", "syn::error::Error::into_compile_error"):
                return True
        return False

    def visit(e: Any):
        if isinstance(e, list):
            for x in e:
                visit(x)
            return
        if not isinstance(e, dict):
            return
        k = e.get("k")
        if k == "mcall" and e["name"] in SWALLOW_METHODS and is_syn_result(e.get("recv_ty")):
            if e["name"] == "unwrap_or_else" and e["args"] and closure_converts(e["args"][0]):
                pass
            else:
                out.append(site("result." + e["name"], e["recv"], e.get("at", ""), H.brief(e, 140)))
        elif k in ("semi", "expr_stmt"):
            t = _expr_ty(e["e"])
            if is_syn_result(t):
                out.append(site("result-unused", e["e"], (H.strip(e["e"]) or {}).get("at", ""), H.brief(e["e"], 140)))
        elif k == "let" and e.get("init") is not None and H.is_wild(e["pat"]) and e["pat"].get("k") == "wild":
            if is_syn_result(_expr_ty(e["init"])):
                out.append(site("result-let-underscore", e["init"], "", H.brief(e["init"], 140)))
        elif k == "let_expr":
            t = _expr_ty(e["init"])
            if is_syn_result(t):
                p = e["pat"]
                if p.get("k") == "ptuple_struct" and p["path"].get("variant") == "Ok":
                    out.append(site("result-if-let-ok", e["init"], (H.strip(e["init"]) or {}).get("at", ""), H.brief(e["init"], 140)))
        elif k == "match" and e.get("src") == "Normal" and is_syn_result(e.get("scrut_ty")):
            for a in e["arms"]:
                p = a["pat"]
                if p.get("k") == "ptuple_struct" and p["path"].get("variant") == "Err" and all(H.is_wild(x) and x.get("k") == "wild" for x in p["pats"]):
                    out.append(site("result-match-err-ignored", e["scrut"], "", H.brief(e["scrut"], 140)))
        for key, v in e.items():
            if key in ("ty", "at", "base_ty"):
                continue
            visit(v)

    visit(f["body"]["tree"])
    return out


# ------------------------------------------------------------------------------------------------
# vetted panic-site table (G1).  class I = infeasible for every input, L = feasible on an input C20
# lists (violation), O = feasible only outside C20's listed rules (observation).
# key -> (class, max count, reason)
# ------------------------------------------------------------------------------------------------

def norm_key(k: str) -> str:
    # keep only the outermost constructor of local types: `local:HashMap<..>` -> `local:HashMap`
    k = re.sub(r"local:&?(mut )?([A-Za-z_0-9]+)<[^|]*?>(?=[\[\],) ]|$)", r"local:\2", k)
    k = re.sub(r"local:([A-Za-z_0-9]+)<.*>", r"local:\1", k)
    return k


VETTED: Dict[str, Tuple[str, int, str]] = {
    "parse_quote!@'": ("I", 2, "constant lifetime token"),
    "arith+@local:usize + lit": ("I", 3, "index / counter bounded by the number of variants, fields or bytes of a literal"),
    "arith+=@local:usize += lit": ("I", 1, "variant counter"),
    "index@local:String[struct]": ("I", 1, "range between two ASCII braces found by a byte scan: both bounds are char boundaries and start < end"),
    "unwrap@Iterator::next(str::split(local:&str))": ("I", 1, "str::split yields at least one item"),
    "parse_quote!@#&path": ("I", 1, "re-parsing an already parsed syn::Path"),
    "parse_quote!@:: strum": ("I", 1, "constant path"),
    "parse_quote!@#&f": ("I", 1, "re-parsing an already parsed syn::Path"),
    "parse_quote!@#&ty": ("I", 1, "re-parsing an already parsed syn::Path"),
    "assert!@Option::is_none(field Field.ident)": ("I", 2, "fields of Fields::Unnamed have no identifier"),
    "unwrap@as_ref(field Field.ident)": ("I", 8, "fields of Fields::Named have an identifier"),
    "unwrap@syn::parse_str(as_str(format!))": ("I", 2, "`field<number>` is always an identifier"),
    "unwrap@syn::parse_str(format!)": ("I", 2, "`<Name>Iter` is an identifier (raw identifiers included); a quoted identifier is a string literal"),
    "Ident::new@format!,Span::call_site()": ("O", 1, "`<Name>Discriminants`: panics only for a raw-identifier enum name, outside C20's listed rules"),
    "format_ident!@is_{} <- arg": ("I", 1, "snakify of an identifier, prefixed, is an identifier"),
    "format_ident!@_{} <- arg": ("I", 1, "snakify of an identifier, prefixed, is an identifier"),
    "format_ident!@{}Table <- arg": ("I", 1, "identifier fragment + suffix"),
    "format_ident!@try_as_{} <- arg": ("I", 1, "snakify of an identifier, prefixed, is an identifier"),
    "format_ident!@try_as_{}_mut <- arg": ("I", 1, "snakify of an identifier, prefixed, is an identifier"),
    "format_ident!@try_as_{}_ref <- arg": ("I", 1, "snakify of an identifier, prefixed, is an identifier"),
    "format_ident!@{} <- arg": ("I", 2, "`x` repeated / `<Variant>_DISCRIMINANT` (mk_ident handles raw identifiers)"),
    "index@as_str(local:String)[struct]": ("I", 1, "`&line[1..]` under starts_with(' '), a one-byte char"),
    "index@local:Vec[lit]": ("I", 1, "`documentation[0]` under len() == 1"),
    "index@local:HashMap[local:&PropertyType]": ("I", 1, "map pre-populated with every PropertyType key"),
    "index@local:HashMap[path]": ("I", 3, "map pre-populated with every PropertyType key"),
    "unwrap@HashMap::get_mut(local:HashMap)": ("I", 3, "map pre-populated with every PropertyType key"),
    "todo!@msg:not yet implemented: {}": ("L", 0, "reachable for any property literal that is not a string, integer or boolean"),
    "unwrap@Punctuated::last(field FieldsNamed.named)": ("I", 2, "under a len() == 1 guard"),
    "unwrap@Punctuated::last(field FieldsUnnamed.unnamed)": ("I", 1, "under a len() == 1 guard"),
    "unwrap@str::parse(lit)": ("I", 1, "constant input \"usize\""),
    "unwrap@syn::parse(Result::unwrap(str::parse(_)))": ("I", 1, "constant input"),
    "Ident::new@LitStr::value(local:&LitStr),LitStr::span(local:&LitStr)": ("O", 1, "default_with value that is not a plain identifier (e.g. \"m::f\"), outside C20's listed rules"),
    "Ident::new@LitStr::value(local:LitStr),LitStr::span(local:LitStr)": ("O", 1, "default_with value that is not a plain identifier, outside C20's listed rules"),
    "expect@as_ref(field StrumVariantProperties.ident)": ("I", 1, "the only constructor of the struct sets ident"),
    "Vec::insert@local:Vec,local:usize": ("I", 1, "positions come from enumerate() over the same vector, applied in reverse"),
    "arith-@local:usize - lit": ("I", 1, "`pos - 1` under `pos != 0`"),
    "index@local:Vec[bin]": ("I", 1, "`output[pos - 1]` under `pos != 0`, pos from enumerate()"),
}

# entries whose reason depends on a guard next to the site: a further site of the same shape needs re-vetting
GUARDED = {
    "unwrap@Punctuated::last(field FieldsNamed.named)", "unwrap@Punctuated::last(field FieldsUnnamed.unnamed)", "index@as_str(local:String)[struct]",
    "index@local:Vec[lit]", "index@local:HashMap[local:&PropertyType]", "index@local:HashMap[path]", "unwrap@HashMap::get_mut(local:HashMap)",
    "arith-@local:usize - lit", "index@local:Vec[bin]", "Vec::insert@local:Vec,local:usize", "index@local:String[struct]",
}

# dropped-Result sites that are not errors to the user (G2): key -> reason
VETTED_DROPS: Dict[str, str] = {
    "result-if-let-ok@Meta::require_list": "an attribute that is not a list is simply not #[repr(..)]",
    "result.ok@syn::parse2": "repr tokens that are not a single type are not an integer repr",
}


# ------------------------------------------------------------------------------------------------
# G3: entry points
# ------------------------------------------------------------------------------------------------

def wrapper_region(gen: Gen, f: dict) -> List[dict]:
    """The entry point plus the local helper functions it calls that are not generators (do not return syn::Result):
    the code that parses the input and turns the generator's Result into tokens."""
    region = [f]
    seen = {f["path"]}
    work = [f]
    while work:
        g = work.pop()
        for p in gen._edges.get(g["path"], ()):
            h = gen.fns.get(p)
            if h is None or p in seen:
                continue
            out_ty = ((h.get("sig") or {}).get("output") or {}).get("s", "")
            if is_syn_result(out_ty):
                continue            # a generator (or parser) proper
            if "TokenStream" in out_ty or out_ty in ("()",):
                seen.add(p)
                region.append(h)
                work.append(h)
    return region


CONVERT = ("syn::error::Error::to_compile_error", "syn::error::Error::into_compile_error")


def entry_point_report(gen: Gen, f: dict) -> List[str]:
    """Reasons why the entry point does not convert every error into compile_error! tokens (empty = ok).

    Checked over the wrapper region, so that sharing the boilerplate of the 18 entry points in a helper is fine:
    (a) the input is parsed as syn::DeriveInput and a parse error is converted with to_compile_error and returned;
    (b) a value of type Result<TokenStream, syn::Error> (the generator's result) is converted with
        unwrap_or_else(|e| e.to_compile_error()) or an equivalent match; (G2 separately forbids dropping it)."""
    problems = []
    region = wrapper_region(gen, f)
    ok_parse = False
    converted = False
    produces = False
    for g in region:
        tree = g["body"]["tree"]
        for n in H.walk(tree):
            k = n.get("k")
            if k == "macro" and n.get("name") == "parse_macro_input":
                if any(x.get("k") == "mcall" and x.get("def") in CONVERT for x in H.walk(n)):
                    ok_parse = True
            if k == "match" and isinstance(n.get("scrut_ty"), str) and n["scrut_ty"].startswith("core::result::Result<syn::derive::DeriveInput"):
                if any(x.get("k") == "mcall" and x.get("def") in CONVERT for x in H.walk(n["arms"])):
                    ok_parse = True
            if k in ("call", "mcall") and is_syn_result(n.get("ty")) and "TokenStream" in (n.get("ty") or ""):
                produces = True
            if k == "mcall" and n["name"] in ("unwrap_or_else", "map_or_else", "map_err") and is_syn_result(n.get("recv_ty")) and n["args"]:
                if any(x.get("k") == "mcall" and x.get("def") in CONVERT for x in H.walk(n["args"])) or any(
                        isinstance(H.strip(a), dict) and H.strip(a).get("k") == "path" and H.strip(a).get("def") in CONVERT for a in n["args"]):
                    converted = True
            if k == "match" and is_syn_result(n.get("scrut_ty")) and "TokenStream" in (n.get("scrut_ty") or ""):
                if any(x.get("k") == "mcall" and x.get("def") in CONVERT for x in H.walk(n["arms"])):
                    converted = True
    if not ok_parse:
        problems.append("the input is not parsed as DeriveInput with the parse error converted by to_compile_error")
    if not produces:
        problems.append("no generator returning syn::Result<TokenStream> is called")
    elif not converted:
        problems.append("the generator's Err is not converted with to_compile_error")
    return problems


# ------------------------------------------------------------------------------------------------
# G5 / G4: casing dispatch and name-source discipline
# ------------------------------------------------------------------------------------------------

HECK = "heck::"
CASE_CALLS = {
    "core::str::<impl str>::to_uppercase": "str::to_uppercase", "core::str::<impl str>::to_lowercase": "str::to_lowercase",
    "alloc::str::<impl str>::to_uppercase": "str::to_uppercase", "alloc::str::<impl str>::to_lowercase": "str::to_lowercase",
    "core::char::methods::<impl char>::to_lowercase": "char::to_lowercase", "core::char::methods::<impl char>::to_uppercase": "char::to_uppercase",
    "core::str::<impl str>::to_ascii_uppercase": "str::to_ascii_uppercase", "core::str::<impl str>::to_ascii_lowercase": "str::to_ascii_lowercase",
    "alloc::str::<impl str>::to_ascii_uppercase": "str::to_ascii_uppercase", "alloc::str::<impl str>::to_ascii_lowercase": "str::to_ascii_lowercase",
}


def case_calls(e: Any, gen: Optional["Gen"] = None, depth: int = 3) -> List[str]:
    """Ordered (evaluation order) list of casing-relevant callees in an expression; calls into local helper functions are
    followed (bounded depth) so that extracting a helper does not change the list."""
    out: List[str] = []

    def local_callee(d: str):
        if gen is not None and depth > 0 and d in gen.fns:
            out.extend(case_calls(gen.fns[d]["body"]["tree"], gen, depth - 1))

    def visit(n: Any):
        if isinstance(n, list):
            for x in n:
                visit(x)
            return
        if not isinstance(n, dict):
            return
        if n.get("k") == "mcall":
            visit(n["recv"])
            visit(n["args"])
            d = n.get("def") or ""
            if d.startswith(HECK):
                out.append(d.split("::")[-1])
            elif d in CASE_CALLS:
                out.append(CASE_CALLS[d])
            else:
                local_callee(d)
            return
        if n.get("k") == "call":
            visit(n["args"])
            f = H.strip(n["f"])
            d = (f.get("def") if isinstance(f, dict) else "") or ""
            if d.startswith(HECK):
                out.append(d.split("::")[-1])
            elif d in CASE_CALLS:
                out.append(CASE_CALLS[d])
            else:
                local_callee(d)
            return
        for key, v in n.items():
            if key in ("ty", "at", "base_ty"):
                continue
            visit(v)

    visit(e)
    return out


EXPECTED_CONVERSION = {
    "pascal": [["to_upper_camel_case"]],
    "camel": [["to_upper_camel_case", "char::to_lowercase"], ["to_lower_camel_case"]],
    "mixed": [["to_lower_camel_case"]],
    "snake": [["to_snake_case"]],
    "kebab": [["to_kebab_case"]],
    "shouty_snake": [["to_shouty_snake_case"], ["to_snake_case", "str::to_uppercase"]],
    "shouty_kebab": [["to_kebab_case", "str::to_uppercase"], ["to_shouty_kebab_case"]],
    "title": [["to_title_case"]],
    "train": [["to_train_case"]],
    "lower": [["str::to_lowercase"]],
    "upper": [["str::to_uppercase"]],
}


class Casing:
    """Structural discovery of the casing machinery of the generator."""

    def __init__(self, gen: Gen):
        self.gen = gen
        self.convert = None         # the fn calling >= 3 distinct heck methods
        for p, f in gen.fns.items():
            hs = set(c for c in case_calls(f["body"]["tree"]) if c.startswith("to_") and "_case" in c)
            if len(hs) >= 3 and f["name"] != "snakify":
                self.convert = f
        self.style_ty = None
        self.from_str = None
        self.dispatch: Dict[str, List[str]] = {}     # CaseStyle variant -> ordered callees
        self.parse: Dict[str, str] = {}              # style string -> CaseStyle variant
        self.name_fns: List[dict] = []
        self.casing_points: List[dict] = []
        self.preferred: List[dict] = []
        self.serializations: List[dict] = []
        if self.convert is None:
            return
        for prm in self.convert["body"]["params"]:
            t = prm.get("ty") or ""
            m = re.match(r"core::option::Option<(.+)>$", t)
            if m:
                self.style_ty = m.group(1)
        if self.style_ty is None:
            # the conversion may take the style itself (`CaseStyle::apply(self, ..)`): the type its dispatching match scrutinises
            best = None
            for n in H.walk(self.convert["body"]["tree"]):
                if n.get("k") == "match" and isinstance(n.get("scrut_ty"), str):
                    k_ = len(set(c for c in case_calls(n["arms"]) if c.startswith("to_") and "_case" in c))
                    if k_ >= 3 and (best is None or k_ > best[0]):
                        best = (k_, n["scrut_ty"].lstrip("&"))
            if best:
                self.style_ty = best[1]
        if self.style_ty is None:
            return
        # CaseStyle variant -> callees
        for n in H.walk(self.convert["body"]["tree"]):
            if n.get("k") == "match" and (n.get("scrut_ty") or "").lstrip("&") == self.style_ty:
                for arm in n["arms"]:
                    for alt in H.pat_alternatives(arm["pat"]):
                        vp = H.variant_pat(alt)
                        if vp and vp.adt == self.style_ty:
                            self.dispatch.setdefault(vp.variant, case_calls(arm["body"], gen))
        short = self.style_ty.split("::")[-1]
        for p, f in gen.fns.items():
            if f.get("impl_trait") == "core::str::traits::FromStr" and f["name"] == "from_str" and (f.get("impl_self") or "").split("::")[-1] == short:
                self.from_str = f
        if self.from_str is not None:
            for n in H.walk(self.from_str["body"]["tree"]):
                if n.get("k") == "match":
                    for arm in n["arms"]:
                        c = H.ctor_of(arm["body"])
                        if c is None:
                            co = H.call_of(arm["body"])
                            if co and co[0].get("def") == "core::result::Result::Ok" and len(co[1]) == 1:
                                c = H.ctor_of(co[1][0])
                        if c is None or c.adt != self.style_ty:
                            continue
                        for alt in H.pat_alternatives(arm["pat"]):
                            if alt.get("k") == "plit":
                                v = H.lit_value(alt["lit"], "str")
                                if v is not None:
                                    self.parse.setdefault(v, c.variant)
                # if-chain form: `if text == "lit" { .. }`
                if n.get("k") == "if":
                    cnd = H.strip(n["cond"])
                    if isinstance(cnd, dict) and cnd.get("k") == "bin" and cnd.get("op") == "==":
                        v = H.lit_value(cnd["r"], "str") or H.lit_value(cnd["l"], "str")
                        for m_ in H.walk(n["then"]):
                            c = H.ctor_of(m_) if m_.get("k") in ("path",) else None
                            if v is not None and c is not None and c.adt == self.style_ty:
                                self.parse.setdefault(v, c.variant)
                                break
        # name functions: take Option<style> and are not the convert fn
        opt = "core::option::Option<%s>" % self.style_ty
        self.name_fns = [f for p, f in gen.fns.items() if f is not self.convert and any((prm.get("ty") or "") == opt for prm in f["body"]["params"])]
        # roles by signature (robust to extra layers between the name functions and the heck calls): the preferred-name function
        # returns one LitStr and takes the prefix; the serializations function returns Vec<LitStr>; every other function taking
        # the style is part of the conversion machinery
        def out_ty(f_):
            return f_["sig"]["output"]["s"]
        self.serializations = [f for f in self.name_fns if out_ty(f).startswith("alloc::vec::Vec<")]
        self.preferred = [f for f in self.name_fns if f not in self.serializations and out_ty(f).endswith("LitStr")
                          and any("LitStr" in (prm.get("ty") or "") for prm in f["body"]["params"])]
        self.casing_points = [f for f in self.name_fns if f not in self.preferred and f not in self.serializations]


def resolve_local(fn_tree: Any, e: Any, depth: int = 4) -> Any:
    """Replace a local by the initialiser of its `let` (bounded)."""
    e = H.strip(e)
    while depth > 0 and isinstance(e, dict) and e.get("k") == "local" and e.get("param") is None:
        init = None
        for n in H.walk(fn_tree):
            if n.get("k") == "let" and n.get("init") is not None:
                b = H.binding(n["pat"])
                if b and b["id"] == e["id"]:
                    init = n["init"]
        if init is None:
            break
        e = H.strip(init)
        depth -= 1
    return e


def call_sites(gen: Gen, target: str):
    """(caller fn, call node, args incl. receiver) for every call of `target`."""
    for p, f in gen.fns.items():
        for n in H.walk(f["body"]["tree"]):
            if n.get("k") == "mcall" and n.get("def") == target:
                yield f, n, [n["recv"]] + list(n["args"])
            elif n.get("k") == "call":
                fp = H.strip(n["f"])
                if isinstance(fp, dict) and fp.get("k") == "path" and fp.get("def") == target:
                    yield f, n, list(n["args"])


# ------------------------------------------------------------------------------------------------
# G7: disabled discipline
# ------------------------------------------------------------------------------------------------

MUST_SKIP_DISABLED = ["EnumString", "Display", "AsRefStr", "IntoStaticStr", "EnumIter", "EnumCount", "FromRepr", "EnumIs", "EnumTryAs", "EnumTable", "EnumMessage", "EnumProperty"]
MUST_LIST_ALL = ["VariantNames", "VariantArray", "EnumDiscriminants"]


def disabled_reads(gen: Gen) -> Dict[str, List[str]]:
    """derive -> functions reachable from its entry point that READ the `disabled` field of the variant properties."""
    readers = set()
    for p, f in gen.fns.items():
        # the function that builds the properties struct (the attribute parser) may consult the field while parsing; it is
        # not a *consumer* of the flag
        if any(n.get("k") == "struct" and str((n.get("ty") or {}).get("adt", "") if isinstance(n.get("ty"), dict) else n.get("ty") or "").endswith("VariantProperties") for n in H.walk(f["body"]["tree"])):
            continue
        lhs_ids = set()
        for n in H.walk(f["body"]["tree"]):
            if n.get("k") == "assign":
                for m in H.walk(n["l"]):
                    lhs_ids.add(id(m))
        for n in H.walk(f["body"]["tree"]):
            if n.get("k") == "field" and n.get("name") == "disabled" and id(n) not in lhs_ids:
                base = (n.get("base_ty") or {}).get("adt") or ""
                if base.endswith("VariantProperties"):
                    readers.add(p)
    out: Dict[str, List[str]] = {}
    for d, f in gen.entries.items():
        r = gen.reach(f["path"])
        out[d] = sorted(x for x in r if x in readers)
    return out


def g7_violations(prop: str, gen: Gen, derives: List[str]) -> Tuple[List[Any], dict]:
    from common import Violation
    reads = disabled_reads(gen)
    out = []
    for d in derives:
        if d not in gen.entries:
            continue
        if d in MUST_SKIP_DISABLED and not reads.get(d):
            out.append(Violation(prop, "G7: a derive that must skip disabled variants reads the `disabled` flag", "%s:G7:disabled-never-read:%s" % (prop, d),
                                 "no function reachable from derive %s reads StrumVariantProperties.disabled" % d, {"generator_fn": gen.entries[d]["path"], "derive": d}))
        if d in MUST_LIST_ALL and reads.get(d):
            out.append(Violation(prop, "G7: a derive that lists every declared variant does not consult the `disabled` flag", "%s:G7:disabled-read:%s" % (prop, d),
                                 "derive %s reaches %s, which reads StrumVariantProperties.disabled" % (d, [gen.short(x) for x in reads[d]]), {"generator_fn": gen.entries[d]["path"], "derive": d}))
    return out, {"G7_disabled_readers": {d: [gen.short(x) for x in reads.get(d, [])] for d in derives if d in gen.entries}}


# ------------------------------------------------------------------------------------------------
# G8: decision-input inventory.  The witness corpus varies the decision inputs of the generator
# (DESIGN.md §3.3).  A branch condition that inspects the *content or position* of user input in a way
# that is not in the vetted inventory is a special case the corpus does not vary: translation
# validation of the corpus then says nothing about it, and the check reports that it cannot establish
# the property for that derive.
# ------------------------------------------------------------------------------------------------

CONTENT_METHODS = {
    "contains", "starts_with", "ends_with", "is_empty", "len", "count", "first", "last", "nth", "position", "find", "rfind", "chars", "bytes",
    "is_ascii", "is_ascii_uppercase", "is_ascii_lowercase", "is_ascii_alphabetic", "is_ascii_alphanumeric", "is_ascii_digit", "is_uppercase", "is_lowercase",
    "is_digit", "is_alphabetic", "is_alphanumeric", "is_numeric", "is_whitespace", "eq", "ne", "is_ident", "eq_ignore_ascii_case", "trim", "trim_start", "trim_end",
    "split", "matches", "get", "contains_key", "char_indices", "is_char_boundary", "strip_prefix", "strip_suffix", "parse", "to_lowercase", "to_uppercase",
    "to_ascii_lowercase", "to_ascii_uppercase", "cmp", "partial_cmp", "min", "max", "skip", "take", "rev", "step_by", "enumerate", "zip", "windows", "chunks",
    "sort", "sort_by", "sort_by_key", "dedup", "retain", "truncate", "insert", "next", "peek",
}
PREDICATE_ADAPTERS = {"filter", "filter_map", "take_while", "skip_while", "any", "all", "find", "position", "find_map", "map_while", "max_by_key", "min_by_key", "retain", "partition"}


def _walk_no_macro(n: Any, keep=("matches",)):
    if isinstance(n, dict):
        if n.get("k") == "macro" and n.get("name") not in keep:
            return
        yield n
        for k, v in n.items():
            if k in ("ty", "at", "base_ty"):
                continue
            for x in _walk_no_macro(v, keep):
                yield x
    elif isinstance(n, list):
        for v in n:
            for x in _walk_no_macro(v, keep):
                yield x


def _lit_text(e: Any) -> Optional[str]:
    e = H.strip(e)
    if isinstance(e, dict) and e.get("k") == "ref":
        e = H.strip(e["e"])
    if isinstance(e, dict) and e.get("k") == "lit":
        return "%s:%s" % (e.get("ty"), e.get("v"))
    return None


def _norm_src(s: str) -> str:
    s = re.sub(r"local:&?(mut )?([A-Za-z_0-9]+)<.*?>(?=[\])(, ]|$)", r"local:\2", s)
    s = re.sub(r"local:([A-Za-z_0-9]+)<.*>", r"local:\1", s)
    return s


def decision_atoms(f: dict) -> List[Tuple[str, str, str]]:
    """(atom signature, text, location) for every content/position inspecting operation inside a branch condition,
    match guard, `while` condition or predicate closure of `f` (code inside macro expansions excluded)."""
    out: List[Tuple[str, str, str]] = []
    conds: List[Any] = []
    for n in _walk_no_macro(f["body"]["tree"]):
        k = n.get("k")
        if k == "if":
            c = H.strip(n["cond"])
            conds.append(c["init"] if isinstance(c, dict) and c.get("k") == "let_expr" else c)
        elif k == "match" and n.get("src") in ("Normal", None):
            for a in n["arms"]:
                if a.get("guard") is not None:
                    conds.append(a["guard"])
                for alt in H.pat_alternatives(a["pat"]):
                    for pn in H.walk(alt):
                        if pn.get("k") == "plit":
                            out.append(("match-literal %s :: %s" % (_norm_src(source_sig(n["scrut"], 2)), _lit_text(pn["lit"])), H.brief(n["scrut"], 60), n.get("at", "")))
        elif k == "mcall" and n["name"] in PREDICATE_ADAPTERS:
            for a in n["args"]:
                a_ = H.strip(a)
                if isinstance(a_, dict) and a_.get("k") == "closure":
                    conds.append(a_["body"])
                elif isinstance(a_, dict) and a_.get("k") == "path":
                    out.append(("adapter %s(%s)" % (n["name"], short_def(a_.get("def"))), H.brief(n, 80), n.get("at", "")))
            out.append(("adapter %s on %s" % (n["name"], _norm_src(source_sig(n["recv"], 2))), H.brief(n, 80), n.get("at", "")))
    for c in conds:
        for n in _walk_no_macro(c):
            k = n.get("k")
            if k == "mcall" and n["name"] in CONTENT_METHODS:
                lits = [x for x in (_lit_text(a) for a in n["args"]) if x]
                out.append(("%s(%s)%s" % (n["name"], _norm_src(source_sig(n["recv"], 2)), (" " + ",".join(lits)) if lits else ""), H.brief(n, 80), n.get("at", "")))
            elif k == "bin" and n.get("op") in ("==", "!=", "<", ">", "<=", ">="):
                ll, rl = _lit_text(n["l"]), _lit_text(n["r"])
                if ll or rl or any(isinstance(H.strip(x), dict) and H.strip(x).get("k") == "mcall" and H.strip(x)["name"] in ("len", "count") for x in (n["l"], n["r"])):
                    out.append(("cmp %s %s %s" % (ll or _norm_src(source_sig(n["l"], 2)), n["op"], rl or _norm_src(source_sig(n["r"], 2))), H.brief(n, 80), n.get("at", "")))
    return out


# The inventory of the vetted tree (py/vetted_atoms.json): every atom was read and matched to a corpus / witness
# dimension; `why` is the dimension that varies it.  Frozen by selftest/freeze_atoms.py, never at check time.
ATOM_REASONS = [
    (r"^match-literal local:&str :: str:", "style strings: all 16 accepted strings are in the corpus and in G5's table"),
    (r"is_digit|cmp local:usize != int:0", "snakify: identifiers with digit runs in every position (identifier dictionary; exhaustive identifiers in the thorough tier)"),
    (r"next\(local:Chars", "camelCase: first character lower-cased (casing family)"),
    (r"peek\(", "attribute keyword dispatch: every strum / strum_discriminants key is used by the corpus and by the witnesses"),
    (r"is_ident|Attribute|attrs|TokenStream|IntoIter|str:repr", "attribute selection by path (strum, strum_discriminants, doc, repr, copied attributes): all attribute kinds, in several orders"),
    (r"max_by_key|LitStr::value", "preferred name: longest serialize (all orders of three lengths in the corpus)"),
    (r"FieldsUnnamed|FieldsNamed|enumerate", "field arity: kinds t0..t3 / n0..n3 in the corpus, witnesses for 0 and 2 fields"),
    (r"lifetimes|type_params", "generic parameters: generic family and lifetime witnesses"),
    (r"Vec::len\(local:Vec\) < Punctuated::len|len\(local:Punctuated\)|len\(local:Vec\)", "wildcard arm needed iff some variant has no arm (disabled placement dimension)"),
    (r"starts_with|== int:1|len\(local:&?Vec\)|is_empty", "documentation assembly, empty spelling list / arm list (messages and naming families)"),
    (r"byte:123|byte:125|contains|String::is_empty|split|any on iter", "placeholder scanning of the literal (placeholders family + witnesses)"),
    (r"Path.segments|PathSegment", "repr: last path segment among the ten integer types (11 reprs in the corpus)"),
    (r"insert\(local:HashSet", "phf duplicate-key suppression (unit_strings family with twins)"),
    (r"filter_map on IntoIterator::into_iter\(local:Vec", "EnumIs / EnumTryAs iterate the pre-filtered enabled variants"),
    (r"local:String == str:1|DeriveInput.ident == local:String", "STRUM_DEBUG printing: no effect on the expansion"),
]


def load_vetted_atoms() -> Dict[str, Dict[str, str]]:
    """derive -> {atom -> why}"""
    import json
    import os
    p = os.path.join(os.path.dirname(os.path.abspath(__file__)), "vetted_atoms.json")
    with open(p) as f:
        per = json.load(f)["per_derive"]
    out: Dict[str, Dict[str, str]] = {}
    for d, atoms in per.items():
        out[d] = {}
        for a in atoms:
            out[d][a] = next((r for pat, r in ATOM_REASONS if re.search(pat, a)), "read and matched to a corpus dimension")
    return out


def atoms_per_derive(gen: Gen) -> Dict[str, Dict[str, Tuple[str, str, str]]]:
    """derive -> {atom -> (fn, text, at)} over the functions reachable from the derive's entry point."""
    per_fn: Dict[str, List[Tuple[str, str, str]]] = {}
    out: Dict[str, Dict[str, Tuple[str, str, str]]] = {}
    for d, f in gen.entries.items():
        out[d] = {}
        for p in sorted(gen.reach(f["path"])):
            if "kw::" in p:
                continue
            if p not in per_fn:
                per_fn[p] = decision_atoms(gen.fns[p])
            for atom, text, at in per_fn[p]:
                out[d].setdefault(atom, (gen.short(p), text, at))
    return out


def g8_new_atoms(gen: Gen, derives: List[str]) -> Tuple[List[Tuple[str, str, str, str, str]], int]:
    """Decision atoms outside the vetted inventory of their derive: (derive, atom, fn, text, at)."""
    vetted = load_vetted_atoms()
    cur = atoms_per_derive(gen)
    out = []
    total = 0
    for d in derives:
        for atom, (fn, text, at) in sorted(cur.get(d, {}).items()):
            total += 1
            if atom not in vetted.get(d, {}):
                out.append((d, atom, fn, text, at))
    return out, total
