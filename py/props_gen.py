"""Validators that combine generator rules (G), expansions (X) and witnesses (W): C07, C19, C20."""
from __future__ import annotations
import re
from typing import Any, Dict, List, Optional, Set, Tuple
import shapes as H
import tables as T
import spec as S
import grules as G
from shapes import Unrecognised
from model import EnumInfo, fn_of
from common import Violation, ToolError
from props_strings import where, unrec, NameTables, message_tables, GEN_FN, vclass

NAME_DERIVES = ["Display", "AsRefStr", "AsStaticStr", "IntoStaticStr", "ToString", "VariantNames", "EnumVariantNames"]
SER_DERIVES = ["EnumString", "EnumMessage"]
DEPRECATED = {"AsStaticStr", "ToString", "EnumVariantNames"}


def gwhere(gen: G.Gen, f: dict, extra: Optional[dict] = None) -> dict:
    d = {"generator_fn": f["path"], "at": f.get("span")}
    if extra:
        d.update(extra)
    return d


# ------------------------------------------------------------------------------------------------
# C07
# ------------------------------------------------------------------------------------------------

def C07(infos: List[EnumInfo], ctx: dict):
    out: List[Violation] = []
    notes: List[str] = []
    gen = G.Gen(ctx["units"])
    cs = G.Casing(gen)
    g_evaluated = []
    g_not_evaluated = []
    rows = 0
    # ---- G5: dispatch tables, for all programs
    if cs.convert is None or not cs.dispatch or not cs.parse:
        g_not_evaluated.append("G5 (casing dispatch tables): the conversion function / style parser could not be discovered structurally")
    else:
        g_evaluated.append("G5")
        for s, cls in S.STYLE_TABLE.items():
            rows += 1
            var = cs.parse.get(s)
            if var is None:
                out.append(Violation("C07", "G5: every documented style string (and accepted alias) is accepted", "C07:G5:style-rejected:%s" % s,
                                     "the style parser has no arm for %r" % s, gwhere(gen, cs.from_str, {"style": s, "accepted": sorted(cs.parse)})))
                continue
            calls = cs.dispatch.get(var)
            if calls is None:
                out.append(Violation("C07", "G5: every style has a conversion", "C07:G5:no-conversion:%s" % cls, "no conversion arm for %s (style %r)" % (var, s), gwhere(gen, cs.convert)))
                continue
            if calls not in G.EXPECTED_CONVERSION[cls]:
                out.append(Violation("C07", "G5: style string -> conversion callees equals the documented table", "C07:G5:wrong-conversion:%s" % cls,
                                     "style %r parses to %s whose conversion calls %s; documented conversion is %s" % (s, var, calls, G.EXPECTED_CONVERSION[cls][0]),
                                     gwhere(gen, cs.convert, {"style": s, "case_style_variant": var, "found": calls, "expected": G.EXPECTED_CONVERSION[cls]})))
    # ---- G4: single point of application, every derive goes through it
    if cs.convert is None or not cs.name_fns:
        g_not_evaluated.append("G4 (name-source discipline): name functions not discovered")
    else:
        g_evaluated.append("G4")
        out += g4_violations("C07", gen, cs)
    # ---- X: emitted literals equal the independent casing oracle
    programs = 0
    classes = set()
    samples = []
    skipped = []
    for info in infos:
        if info.spec is None:
            continue
        es = info.spec
        if not any(info.group(d) for d in NAME_DERIVES + SER_DERIVES):
            continue
        if not es.names_modelled():
            skipped.append({"enum": info.where(), "reason": "raw-identifier variant without explicit spelling (name not modelled)"})
            continue
        programs += 1
        nt = NameTables(info)
        by_name = {v.name: v for v in es.variants}
        observed: Dict[str, Dict[str, str]] = {}

        def check(label: str, derive: str, v: S.VariantSpec, lit: str, with_prefix: bool):
            nonlocal rows
            rows += 1
            pre = (es.prefix or "") if with_prefix else ""
            if v.has_explicit_name():
                # explicit spellings are never re-cased
                allowed = [pre + x for x in ([v.to_string] if (v.to_string is not None and with_prefix) else []) + (v.serialize if not (v.to_string is not None and with_prefix) else [])]
                if not with_prefix:
                    allowed = es.spellings(v)
                if lit not in allowed and lit not in [pre + x for x in es.spellings(v)]:
                    out.append(Violation("C07", "variants with an explicit serialize/to_string are never re-cased", "C07:X:explicit-recased:%s" % derive,
                                         "%s emits %r for %s whose explicit spellings are %r" % (label, lit, v.name, es.spellings(v)), where(info, derive, {"variant": v.name, "style": es.style_str})))
                return
            want = pre + S.case(v.name, es.style)
            classes.add("%s/%s" % (es.style, ident_class(v.name)))
            observed.setdefault(v.name, {})[label] = lit[len(pre):] if lit.startswith(pre) else lit
            if lit != want:
                out.append(Violation("C07", "the renamed identifier equals the documented case conversion", "C07:X:wrong-case:%s:%s" % (es.style or "none", derive),
                                     "%s emits %r for identifier %s under %r, expected %r" % (label, lit, v.name, es.style_str, want),
                                     where(info, derive, {"variant": v.name, "style": es.style_str, "found": lit, "expected": want, "ident_class": ident_class(v.name)})))

        for label in nt.tables:
            t = nt.resolve(label)
            if t is None:
                continue
            derive = nt.tables[label].derive
            seen = set()
            for a in t.arms:
                v = by_name.get(a.variant)
                if v is None or a.variant in seen or a.kind != "lit" or v.disabled or v.transparent or (v.default and derive == "Display" and v.to_string is None):
                    continue
                seen.add(a.variant)
                check(label, derive, v, a.lit, True)
        if nt.variant_names is not None and len(nt.variant_names) == len(es.variants):
            for v in es.variants:
                check("VariantNames", "VariantNames", v, nt.variant_names[v.index], True)
        if info.group("EnumString"):
            try:
                pt = T.parse_table(info, info.group("EnumString"))
                arms = [(a.lit, a.ctor.variant) for a in pt.arms]
                if pt.phf_entries is not None:
                    arms += [(k, c.variant) for k, c in pt.phf_entries if not es.ci(by_name[c.variant]) ] if all(c.variant in by_name for _k, c in pt.phf_entries) else []
                for lit, vn in arms:
                    v = by_name.get(vn)
                    if v is not None:
                        check("from_str", "EnumString", v, lit, False)
                # the converted name must also be *accepted*: the parser and the printers agree on it
                from props_strings import gen_eval, overlaps
                if not overlaps(es):
                    for v in es.enabled():
                        if v.default or v.has_explicit_name():
                            continue
                        want = S.case(v.name, es.style)
                        rows += 1
                        got = gen_eval(pt, want)
                        if got != v.name:
                            out.append(Violation("C07", "from_str accepts the converted name the other derives print", "C07:X:converted-name-not-parsed:%s" % (es.style or "none"),
                                                 "from_str maps %r (identifier %s under %r) to %s" % (want, v.name, es.style_str, got or "the fall-through"),
                                                 where(info, "EnumString", {"variant": v.name, "style": es.style_str, "expected": want, "ident_class": ident_class(v.name)})))
            except Unrecognised as e:
                out.append(unrec("C07", info, "EnumString", e))
        if info.group("EnumMessage"):
            try:
                mt = message_tables(info)
                for v in es.variants:
                    r = T.first_arm_for(mt["get_serializations"], v.name)
                    arr = T.static_str_array(r[1]) if r else None
                    for s in arr or []:
                        check("get_serializations", "EnumMessage", v, s, False)
            except Unrecognised as e:
                out.append(unrec("C07", info, "EnumMessage", e))
        for vn, d in observed.items():
            if len(set(d.values())) > 1:
                out.append(Violation("C07", "the renamed identifier is used identically by every derive", "C07:X:derives-disagree", "%s: %s" % (vn, d), where(info, "Display", {"variant": vn})))
        if len(samples) < 5 and es.style and observed:
            samples.append({"enum": info.where(), "style": es.style_str, "renamed": {k: sorted(set(v.values())) for k, v in list(observed.items())[:5]}})
    cov = {"programs": programs, "disagreements_checked": len(out), "samples": samples, "evaluations": rows, "distinct_nontrivial": len(classes), "skipped": skipped,
           "g_rules_evaluated": g_evaluated, "g_rules_not_evaluated": g_not_evaluated,
           "dispatch": {"style_strings": dict(sorted(cs.parse.items())), "conversions": cs.dispatch} if cs.convert is not None else None,
           "rule": "G5 (all programs): {style string -> CaseStyle variant} o {variant -> ordered casing callees} equals the documented table for the 16 accepted strings; G4: conversion applied at a single point that every name-producing derive reaches with the enum's case_style; "
                   "X: every literal emitted for a variant without explicit spelling (VariantNames, Display, AsRefStr, IntoStaticStr, from_str arms, get_serializations) equals the independent casing oracle, explicit spellings are emitted verbatim, all derives agree. distinct_nontrivial = (style, identifier shape) classes",
           "assumptions": ["heck 0.5's word splitting (third party) is the documented boundary rule; the oracle re-implements it independently (py/spec.py)"]}
    return out, cov


def ident_class(name: str) -> str:
    parts = []
    if "_" in name:
        parts.append("underscore")
    if any(c.isdigit() for c in name):
        parts.append("digit")
    if re.search(r"[A-Z]{2,}", name):
        parts.append("acronym")
    if re.search(r"[a-z][A-Z]", name):
        parts.append("camel-boundary")
    if not name.isascii():
        parts.append("non-ascii")
    if name.islower():
        parts.append("lower")
    if name.isupper() and len(name) > 1:
        parts.append("upper")
    return "+".join(parts) or "plain"


def g4_violations(prop: str, gen: G.Gen, cs: G.Casing) -> List[Violation]:
    out: List[Violation] = []
    opt = "core::option::Option<%s>" % cs.style_ty
    # (i) every call site passes the enum's case_style (and prefix)
    for target in cs.preferred + cs.serializations:
        for caller, node, args in G.call_sites(gen, target["path"]):
            if caller in cs.name_fns:
                continue
            rest = args[1:] if node.get("k") == "mcall" else args
            params = target["body"]["params"]
            off = 1 if params and params[0]["name"] == "self" else 0
            for i, prm in enumerate(params[off:]):
                if i >= len(rest):
                    break
                a = G.resolve_local(caller["body"]["tree"], rest[i])
                pty = prm.get("ty") or ""
                want_field_ty = None
                if pty == opt:
                    want_field_ty = opt
                    slot = "case_style"
                elif "LitStr" in pty:
                    want_field_ty = "LitStr"
                    slot = "prefix"
                else:
                    continue
                found = False
                for n in H.walk(a):
                    if n.get("k") == "field" and isinstance(n.get("ty"), str):
                        base = (n.get("base_ty") or {}).get("adt") or ""
                        if want_field_ty == opt and n["ty"] == opt and base != (cs.style_ty or ""):
                            found = True
                        if want_field_ty == "LitStr" and "LitStr" in n["ty"] and n["ty"].startswith("core::option::Option<") and "Vec" not in n["ty"] and base.endswith("TypeProperties"):
                            found = True
                if not found:
                    const_none = isinstance(a, dict) and a.get("k") == "path" and a.get("def") == "core::option::Option::None"
                    out.append(Violation(prop, "G4: every generator passes the enum's %s to the name function" % slot, "%s:G4:%s-not-passed:%s" % (prop, slot, gen.short(caller["path"])),
                                         "%s calls %s with %s = %s" % (gen.short(caller["path"]), target["name"], slot, "None" if const_none else H.brief(a, 120)),
                                         gwhere(gen, caller, {"callee": target["path"], "argument": H.brief(a, 200), "call_at": node.get("at")})))
    # (ii) who may call the conversion
    for p, f in gen.fns.items():
        if cs.convert["path"] in gen._edges[p] and f not in cs.name_fns and f is not cs.convert:
            out.append(Violation(prop, "G4: the case conversion is applied only inside the name functions", "%s:G4:conversion-called-elsewhere" % prop,
                                 "%s calls the conversion function directly" % gen.short(p), gwhere(gen, f)))
    # (iii) reachability
    reach = gen.reach_from_entries()
    for d, f in gen.entries.items():
        r = gen.reach(f["path"])
        if d in NAME_DERIVES and not any(t["path"] in r for t in cs.preferred):
            out.append(Violation(prop, "G4: every name-producing derive obtains names through the preferred-name function", "%s:G4:derive-bypasses-name-fn:%s" % (prop, d),
                                 "derive %s does not reach %s" % (d, [t["name"] for t in cs.preferred]), gwhere(gen, f)))
        if d in SER_DERIVES and not any(t["path"] in r for t in cs.serializations):
            out.append(Violation(prop, "G4: every parsing derive obtains spellings through the serializations function", "%s:G4:derive-bypasses-serializations:%s" % (prop, d),
                                 "derive %s does not reach %s" % (d, [t["name"] for t in cs.serializations]), gwhere(gen, f)))
    return out


# ------------------------------------------------------------------------------------------------
# C19
# ------------------------------------------------------------------------------------------------

ALLOC_PRELUDE_NAMES = {"String", "Vec", "Box", "ToString", "ToOwned"}
ALLOC_MACROS = {"format", "vec", "println", "print", "eprintln", "eprint", "dbg"}
KEYWORDS = {"as", "for", "impl", "in", "where", "fn", "const", "static", "mut", "ref", "match", "if", "else", "return", "let", "use", "pub", "type", "dyn", "move", "unsafe", "crate", "self", "Self", "super"}


def template_violations(gen: G.Gen) -> Tuple[List[Violation], dict]:
    out: List[Violation] = []
    reach = gen.reach_from_entries(include_deprecated=False)
    n_templates = 0
    n_idents = 0
    n_core = 0
    for p, f in gen.fns.items():
        if p not in reach:
            continue
        for qm in G.quote_macros(f):
            toks = G.quote_tokens(qm)
            n_templates += 1
            for i, (k, v) in enumerate(toks):
                if k != "ident":
                    continue
                n_idents += 1
                nxt = toks[i + 1] if i + 1 < len(toks) else None
                prev = toks[i - 1] if i > 0 else None
                prev2 = toks[i - 2] if i > 1 else None
                if v in ("std", "alloc") and (nxt == ("punct", "::")):
                    out.append(Violation("C19", "G6: no template of a non-deprecated derive names std or alloc", "C19:template:%s" % v,
                                         "%s emits a path through `%s`" % (gen.short(p), v), gwhere(gen, f, {"derives": sorted(reach[p]), "template_at": qm.get("at"), "context": render_toks(toks[max(0, i - 4): i + 6])})))
                if v in ALLOC_PRELUDE_NAMES and not (prev == ("punct", "::")):
                    out.append(Violation("C19", "G6: no template relies on std-prelude-only names", "C19:template:prelude-%s" % v,
                                         "%s emits `%s`, which is only in the std prelude" % (gen.short(p), v), gwhere(gen, f, {"derives": sorted(reach[p]), "context": render_toks(toks[max(0, i - 4): i + 6])})))
                if v in ALLOC_MACROS and nxt == ("punct", "!"):
                    out.append(Violation("C19", "G6: no template invokes an alloc/std-only macro", "C19:template:%s!" % v,
                                         "%s emits `%s!`, which needs alloc/std" % (gen.short(p), v), gwhere(gen, f, {"derives": sorted(reach[p]), "template_at": qm.get("at"), "context": render_toks(toks[max(0, i - 6): i + 4])})))
                if v == "core" and nxt == ("punct", "::"):
                    n_core += 1
                    rooted = prev == ("punct", "::") and not (prev2 is not None and ((prev2[0] == "ident" and prev2[1] not in KEYWORDS) or prev2 == ("punct", ">") or prev2[0] == "interp"))
                    if not rooted and prev == ("punct", "::") and prev2 is not None:
                        # `impl #generics ::core::..` and `impl<T> ::core::..`: the `::` starts a new path after the impl generics
                        j = i - 2
                        if prev2[0] == "interp" and j >= 1 and toks[j - 1] == ("ident", "impl"):
                            rooted = True
                        elif prev2 == ("punct", ">"):
                            depth = 0
                            while j >= 0:
                                if toks[j] == ("punct", ">"):
                                    depth += 1
                                elif toks[j] == ("punct", "<"):
                                    depth -= 1
                                    if depth == 0:
                                        break
                                j -= 1
                            if j >= 1 and toks[j - 1] == ("ident", "impl"):
                                rooted = True
                    if not rooted:
                        out.append(Violation("C19", "G6: core is always spelled ::core (a local `mod core` must not capture it)", "C19:template:unrooted-core",
                                             "%s emits `core::` without a leading `::`" % gen.short(p), gwhere(gen, f, {"derives": sorted(reach[p]), "context": render_toks(toks[max(0, i - 4): i + 6])})))
                if v == "strum" and nxt == ("punct", "::"):
                    # the only legitimate literal `::strum` is the default of the crate path function
                    if f["name"] != "crate_module_path":
                        out.append(Violation("C19", "G6: strum items are referenced only through the configured crate path", "C19:template:hard-coded-strum",
                                             "%s emits a literal `strum::` path" % gen.short(p), gwhere(gen, f, {"derives": sorted(reach[p]), "context": render_toks(toks[max(0, i - 4): i + 6])})))
    return out, {"templates": n_templates, "template_idents": n_idents, "core_paths": n_core}


def render_toks(toks) -> str:
    return " ".join(("#" + v[:20]) if k == "interp" else ("{" if k == "open" else "}" if k == "close" else v) for k, v in toks)


def C19(infos: List[EnumInfo], ctx: dict):
    out: List[Violation] = []
    gen = G.Gen(ctx["units"])
    # ---- G6
    tv, tstats = template_violations(gen)
    out += tv
    if tstats["template_idents"] < 300 or tstats["core_paths"] < 50:
        raise ToolError("G6 inspected only %d template identifiers / %d ::core paths: the quote! expansion is not being recognised" % (tstats["template_idents"], tstats["core_paths"]))
    # positive control: the deprecated ToString derive must trip the std rule (so the rule cannot pass vacuously)
    ctrl = 0
    for p, f in gen.fns.items():
        for qm in G.quote_macros(f):
            toks = G.quote_tokens(qm)
            ctrl += sum(1 for i, (k, v) in enumerate(toks) if k == "ident" and v == "std" and i + 1 < len(toks) and toks[i + 1] == ("punct", "::"))
    # ---- X: resolved dependencies of every generated item
    programs = 0
    rows = 0
    classes = set()
    samples = []
    index = {}
    for info in infos:
        if info.spec is None:
            continue
        es = info.spec
        counted = False
        for derive, groups in info.groups.items():
            if derive in DEPRECATED:
                continue
            for g in groups:
                if any(d in DEPRECATED for d in g.chain):
                    continue
                allowed = {"core", "strum", info.crate, "strum_renamed"}
                cfg = (info.unit or {}).get("_config")
                for it in g.items:
                    # items produced by other derives nested in this expansion (builtin derives on the
                    # generated discriminant enum etc.) are the compiler's, not strum's
                    ch = it.get("chain") or []
                    if ch and not (ch[0].get("crate") == "strum_macros"):
                        continue
                    counted = True
                    for pth in it.get("paths", []):
                        rows += 1
                        crate = pth.get("crate")
                        direct = pth.get("direct", False)
                        if "macro" in pth:
                            if direct and pth.get("crate") in ("alloc", "std") and pth["macro"] not in ("panic", "unreachable", "matches", "concat", "stringify", "format_args", "assert", "debug_assert"):
                                out.append(Violation("C19", "X: generated code invokes no alloc/std macro", "C19:dependency:macro-%s" % pth["macro"],
                                                     "%s on %s invokes %s! (defined in %s)" % (derive, info.name, pth["macro"], pth.get("crate")), where(info, derive, {"macro": pth["macro"]})))
                            continue
                        if not direct:
                            continue  # inside a std macro's own expansion (panic!, format_args!)
                        if crate in ("alloc", "std") or pth.get("root_crate") in ("alloc", "std"):
                            out.append(Violation("C19", "X: generated code resolves only into core, strum (through the configured path) and the user's crate", "C19:dependency:%s" % (crate if crate in ("alloc", "std") else pth.get("root_crate")),
                                                 "%s on %s refers to %s (%s)" % (derive, info.name, pth.get("def"), pth.get("written") or pth.get("mcall")), where(info, derive, {"path": pth})))
                            continue
                        if crate == "phf" or pth.get("root_crate") == "phf":
                            if not es.use_phf:
                                out.append(Violation("C19", "X: phf only under use_phf", "C19:dependency:phf", "%s on %s refers to %s" % (derive, info.name, pth.get("def")), where(info, derive)))
                            continue
                        # strum items must be spelled through the configured path
                        if crate in ("strum", "strum_renamed") and pth.get("written") and "written" in pth and pth.get("dk") not in ("Mod",):
                            w = pth["written"] if pth["written"].startswith("::") else (("::" if pth.get("global") else "") + pth["written"])
                            conf = "::".join(seg[2:] if seg.startswith("r#") else seg for seg in es.strum_path().replace(" ", "").split("::"))   # the driver prints identifiers, not their raw spelling
                            if g.derive != "EnumDiscriminants" and g.chain and len(g.chain) > 1:
                                continue  # nested derive: the crate path is whatever was passed through
                            if not (w.startswith(conf + "::") or w == conf or pth["written"].split("::")[0] in ("Self",) or pth.get("dk") in ("AssocTy", "AssocFn", "AssocConst")):
                                classes.add("strum-path/" + derive)
                                # `use <path>::x as phf; phf::Map` style aliases resolve through a local name
                                if pth["written"].split("::")[0] in ("phf", "PHF"):
                                    continue
                                out.append(Violation("C19", "X: every reference to a strum item goes through the configured crate path", "C19:strum-path:%s" % derive,
                                                     "%s on %s spells %s as `%s`, configured path is `%s`" % (derive, info.name, pth.get("def"), w, conf), where(info, derive, {"path": pth, "configured": conf})))
                        classes.add("%s/%s/%s" % (derive, cfg, crate))
        if counted:
            programs += 1
            if len(samples) < 3:
                samples.append({"enum": info.where(), "config": (info.unit or {}).get("_config"), "crates_referenced": sorted(set(p.get("crate") or "?" for g_ in info.groups.values() for gg in g_ for it in gg.items for p in it.get("paths", []) if p.get("direct")))})
    # ---- W: the corpus compiles in the three configurations
    wstats = {}
    try:
        import corpus
        std_failed = set(f.module for f in corpus.failures() if f.crate.startswith("c_std_"))
        fails = [f for f in corpus.failures() if not f.module.endswith("_phf") and not f.crate.startswith("c_std_") and f.module not in std_failed]
        crates = corpus._LAST.get("crates") or {}
        for cfg in ("nostd", "renamed", "shadow", "std"):
            wstats[cfg] = sum(len(v) for k, v in crates.items() if k.split("_")[1] == cfg)
        for f in fails:
            cfg = f.crate.split("_")[1]
            ce = corpus.enum_by_module(f.module)
            msg = re.sub(r"`[^`]*`", "`..`", f.message)[:70]
            out.append(Violation("C19", "W: the corpus compiles as no_std without alloc / with strum renamed / with local `core` and `std` modules", "C19:compile:%s:%s" % (cfg, msg),
                                 "corpus enum %s does not compile in configuration `%s`: %s" % (f.module, cfg, f.message),
                                 {"module": f.module, "crate": f.crate, "config": cfg, "error": f.rendered[:1500], "derives": ce.derives if ce else None}))
    except ImportError:
        pass
    for cfg in ("nostd", "renamed", "shadow"):
        if ctx.get("tier") and wstats and wstats.get(cfg, 0) < 100:
            raise ToolError("configuration %s holds only %d corpus enums" % (cfg, wstats.get(cfg, 0)))
    cov = {"explanation": "G6: token inventory of every quote! template reachable from a non-deprecated derive (no std/alloc path, no std-prelude-only name, no alloc macro, ::core always rooted, no hard-coded strum path); "
                          "X: defining crate and written spelling of every path / method / macro in every generated item of the corpus and the repository; "
                          "W: the whole corpus is type-checked as #![no_std] without alloc (strum default-features = false), with strum reachable only as `crate::reexp::strum_renamed`, and with `mod core {} mod std {}` in scope.",
           "evaluations": rows + tstats["template_idents"], "distinct_nontrivial": len(classes), "samples": samples, "templates": tstats,
           "positive_control_std_paths_in_deprecated_templates": ctrl, "programs": programs, "witness_enums_per_configuration": wstats,
           "assumptions": ["type-checking (`cargo check`) stands for `cargo build`: no strum-generated code needs linking-time resolution"]}
    if ctrl == 0:
        raise ToolError("positive control failed: the deprecated ToString template no longer trips the `std` rule")
    return out, cov


# ------------------------------------------------------------------------------------------------
# C20
# ------------------------------------------------------------------------------------------------

def C20(infos: List[EnumInfo], ctx: dict):
    out: List[Violation] = []
    gen = G.Gen(ctx["units"])
    reach = gen.reach_from_entries()
    observations = []
    # ---- G3: entry points
    n_entries = len(gen.entries)
    if n_entries < 18:
        raise ToolError("only %d #[proc_macro_derive] entry points found (expected 18)" % n_entries)
    for d, f in sorted(gen.entries.items()):
        for prob in G.entry_point_report(gen, f):
            out.append(Violation("C20", "G3: every entry point turns Err(syn::Error) into compile_error! tokens", "C20:entry-point:%s" % prob.split(" (")[0][:60],
                                 "entry point of %s: %s" % (d, prob), gwhere(gen, f, {"derive": d})))
    # ---- G1: panic sites
    sites = []
    for p, f in gen.fns.items():
        if p in reach:
            sites += G.panic_sites(gen, f)
    by_key: Dict[str, List[G.Site]] = {}
    n_auto = 0
    for s in sites:
        if s.auto:
            n_auto += 1
            continue
        by_key.setdefault(G.norm_key(s.key()), []).append(s)
    n_I = 0
    for k, ss in sorted(by_key.items()):
        vet = G.VETTED.get(k)
        if vet is None and (ss[0].kind.split("@")[0] in ("index", "Vec::insert", "Vec::remove", "Vec::swap_remove", "String::insert") or ss[0].kind.startswith("arith")):
            # bounds / arithmetic on internal indices: a new shape is recorded, not reported -- independent refactorings
            # introduce them routinely (loops rewritten with indices) and nothing in their shape relates them to the input
            observations.append({"site": k, "fn": gen.short(ss[0].fn), "reason": "unvetted index/arithmetic site (recorded only): %s" % ss[0].text})
            continue
        if vet is None:
            s = ss[0]
            out.append(Violation("C20", "G1: every panic site reachable from a derive entry point is vetted as infeasible", "C20:panic-site:%s" % k,
                                 "%s contains an unvetted panic site: %s" % (gen.short(s.fn), s.text), {"generator_fn": s.fn, "at": s.at, "site": s.text, "derives": sorted(reach.get(s.fn, [])), "kind": s.kind}))
            continue
        cls, mx, reason = vet
        if cls == "L":
            s = ss[0]
            out.append(Violation("C20", "G1: no panic site is feasible on input the property lists", "C20:panic-site:%s" % k,
                                 "%s: %s -- %s" % (gen.short(s.fn), s.text, reason), {"generator_fn": s.fn, "at": s.at, "site": s.text, "derives": sorted(reach.get(s.fn, []))}))
        elif cls == "O":
            observations.append({"site": k, "fn": gen.short(ss[0].fn), "reason": reason})
        else:
            n_I += len(ss)
        if cls != "L" and len(ss) > mx and k in G.GUARDED:
            # more sites of a vetted shape than were read: recorded for the maintainer of the table, not reported -- the shape is what
            # was vetted, and a second instance on a structure built the same way is as infeasible as the first (DESIGN.md 14.8)
            s = ss[-1]
            observations.append({"site": k, "fn": gen.short(s.fn), "reason": "%d sites of a shape vetted %d time(s); the newest: %s" % (len(ss), mx, s.text)})
    # ---- G2: dropped syn::Result
    drops = []
    for p, f in gen.fns.items():
        if p in reach:
            drops += G.dropped_results(f)
    for s in drops:
        if s.key() in G.VETTED_DROPS:
            continue
        if s.auto:
            observations.append({"site": s.key(), "fn": gen.short(s.fn), "reason": s.auto})
            continue
        out.append(Violation("C20", "G2: no syn::Error is dropped (silent acceptance of malformed input)", "C20:dropped-error:%s" % s.key(),
                             "%s drops a syn::Error: %s" % (gen.short(s.fn), s.text), {"generator_fn": s.fn, "at": s.at, "expression": s.text, "derives": sorted(reach.get(s.fn, []))}))
    # ---- W: witnesses
    import witness
    outs, wstats = witness.run_witnesses(ctx["tier"])
    rules = set()
    n_fail_ok = 0
    samples = []
    for o in outs:
        w = o.witness
        rules.add((w.rule.split("`")[0].strip(), w.derive))
        if o.which == "twin":
            if o.verdict != "ok":
                raise ToolError("compiling twin of witness %s does not compile (witness bug): %s" % (w.name, o.detail))
            continue
        if o.verdict == "ok":
            n_fail_ok += 1
            if len(samples) < 6 and len(samples) < 6 and (w.rule, ) not in [(s_["rule"],) for s_ in samples]:
                samples.append({"witness": w.name, "rule": w.rule, "derive": w.derive, "item": w.item, "diagnostic": o.detail})
            continue
        rule_key = w.rule.split("`")[0].strip()
        out.append(Violation("C20", "W: input outside the documented domain is rejected with a compile error at the offending item (no panic, no silent acceptance)",
                             "C20:witness:%s:%s:%s" % (rule_key, w.derive, o.verdict),
                             "%s on `%s`: %s (%s)" % (w.derive, w.rule, o.verdict, o.detail[:160]),
                             {"witness": w.name, "derive": w.derive, "rule": w.rule, "item": w.item, "verdict": o.verdict, "detail": o.detail, "generator_fn": GEN_FN.get(w.derive)}))
    if wstats["witnesses"] < 150:
        raise ToolError("only %d witnesses generated" % wstats["witnesses"])
    cov = {"explanation": "G1: inventory of panic sites (unwrap/expect, panic-family macros, indexing/slicing, integer arithmetic, Ident::new, format_ident!, parse_quote!, Vec::insert ..) in every function reachable from the 18 derive entry points, each matched against a vetted table (class I infeasible / L feasible on listed input / O feasible only outside the listed rules); "
                          "G2: every expression of type Result<_, syn::Error> that flows into ok()/unwrap_or*/is_ok/if-let-Ok/unused is a dropped error unless vetted; G3: each entry point parses with parse_macro_input! and converts the single inner Result with unwrap_or_else(|e| e.to_compile_error()); "
                          "W: one must-fail cargo example per (rule, derive) with a compiling twin differing only by the offending construct; a must-fail witness needs an error without rustc error code (a compile_error! from the macro), no 'panicked', and a span inside the offending item.",
           "evaluations": len(sites) + len(drops) + 2 * wstats["witnesses"] + n_entries, "distinct_nontrivial": len(rules) + len(by_key),
           "entry_points": n_entries, "functions_reachable": len(reach), "panic_sites": len(sites), "panic_site_shapes": len(by_key), "panic_sites_class_I": n_I, "panic_sites_infeasible_by_shape": n_auto,
           "dropped_result_sites": len(drops), "dropped_result_vetted": sum(1 for s in drops if s.key() in G.VETTED_DROPS),
           "witnesses": wstats["witnesses"], "witnesses_rejected_as_required": n_fail_ok, "witness_rule_x_derive": len(rules), "samples": samples,
           "observations_outside_listed_rules": observations,
           "assumptions": ["class I reasons in py/grules.py VETTED are human arguments (guards such as len()==1 are not re-derived by the tool)", "syn/quote/proc_macro2 themselves do not panic on valid token streams"]}
    return out, cov
