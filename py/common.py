"""Shared infrastructure: paths, fact extraction with the rustc driver, evidence, violations."""
from __future__ import annotations
import fcntl
import hashlib
import json
import os
import re
import shutil
import subprocess
import sys
import time
from typing import Dict, List, Optional, Tuple

sys.setrecursionlimit(20000)   # expression trees of very large generated matches nest deeply
VERIF = os.path.dirname(os.path.dirname(os.path.abspath(__file__)))
REPO = os.path.abspath(os.environ.get("VERIF_REPO", "/repo"))
WORK = os.environ.get("VERIF_WORK", os.path.join(VERIF, ".work"))
DRV_DIR = os.path.join(VERIF, "tools", "factdrv")
DRV = os.path.join(DRV_DIR, "target", "release", "factdrv")
EVIDENCE = os.environ.get("VERIF_EVIDENCE", os.path.join(VERIF, "evidence"))
MEMBERS = ["strum", "strum_macros", "strum_tests", "strum_nostd_tests"]


class ToolError(Exception):
    """The machinery itself failed (exit code 2: no verdict)."""


def log(*a):
    print(*a, file=sys.stderr, flush=True)


def sysroot() -> str:
    return subprocess.check_output(["rustc", "+nightly", "--print", "sysroot"], text=True).strip()


_ENV_CACHE: Optional[Dict[str, str]] = None


def cargo_env(extra: Optional[Dict[str, str]] = None) -> Dict[str, str]:
    global _ENV_CACHE
    if _ENV_CACHE is None:
        env = dict(os.environ)
        env["CARGO_NET_OFFLINE"] = "true"
        env["LD_LIBRARY_PATH"] = sysroot() + "/lib" + (":" + env["LD_LIBRARY_PATH"] if env.get("LD_LIBRARY_PATH") else "")
        env.pop("RUSTC_WRAPPER", None)
        _ENV_CACHE = env
    env = dict(_ENV_CACHE)
    if extra:
        env.update(extra)
    return env


def ensure_driver() -> str:
    """Build the driver if its binary is missing or older than its sources."""
    srcs = [os.path.join(DRV_DIR, "Cargo.toml")] + [os.path.join(DRV_DIR, "src", f) for f in os.listdir(os.path.join(DRV_DIR, "src"))]
    need = not os.path.exists(DRV) or any(os.path.getmtime(s) > os.path.getmtime(DRV) for s in srcs)
    if need:
        os.makedirs(WORK, exist_ok=True)
        with open(os.path.join(WORK, "driver.lock"), "w") as lk:
            fcntl.flock(lk, fcntl.LOCK_EX)
            need = not os.path.exists(DRV) or any(os.path.getmtime(s) > os.path.getmtime(DRV) for s in srcs)
            if need:
                log("[verif] building factdrv ...")
                r = subprocess.run(["cargo", "build", "--release", "--offline"], cwd=DRV_DIR, env=cargo_env(),
                                   stdout=subprocess.PIPE, stderr=subprocess.STDOUT, text=True)
                if r.returncode != 0:
                    raise ToolError("factdrv build failed:\n" + r.stdout[-4000:])
    return DRV


def file_sha(path: str) -> str:
    h = hashlib.sha256()
    with open(path, "rb") as f:
        h.update(f.read())
    return h.hexdigest()


def driver_hash() -> str:
    return file_sha(ensure_driver())[:12]


def tree_hash(root: str, subdirs: List[str], files: List[str]) -> str:
    h = hashlib.sha256()
    for f in files:
        p = os.path.join(root, f)
        if os.path.exists(p):
            h.update(f.encode())
            h.update(open(p, "rb").read())
    for d in subdirs:
        base = os.path.join(root, d)
        for dp, dns, fns in os.walk(base):
            dns[:] = sorted(x for x in dns if x not in ("target", ".git"))
            for fn in sorted(fns):
                p = os.path.join(dp, fn)
                h.update(os.path.relpath(p, root).encode())
                try:
                    h.update(open(p, "rb").read())
                except OSError:
                    pass
    return h.hexdigest()


def repo_hash() -> str:
    return tree_hash(REPO, MEMBERS, ["Cargo.toml", "Cargo.lock"])


ARTIFACT_RE = re.compile(r"(?:lib)?([A-Za-z0-9_]+-[0-9a-f]{16})\.(?:rmeta|rlib|so|d)$")


def run_cargo_with_driver(cwd: str, target_dir: str, facts_dir: str, args: List[str], member_prefixes: List[str],
                          extra_env: Optional[Dict[str, str]] = None, toolchain: str = "+nightly",
                          keep_going: bool = False) -> Tuple[int, List[str], List[dict]]:
    """Run `cargo check` with the driver as workspace wrapper.

    Returns (exit code, stems of workspace-member artifacts, rustc diagnostics)."""
    os.makedirs(facts_dir, exist_ok=True)
    env = cargo_env({
        "RUSTC_WORKSPACE_WRAPPER": ensure_driver(),
        "FACTDRV_OUT": facts_dir,
        "CARGO_TARGET_DIR": target_dir,
        "RUSTFLAGS": "-Zmir-opt-level=0 -Awarnings",
    })
    if extra_env:
        env.update(extra_env)
    cmd = ["cargo", toolchain, "check", "--offline", "--message-format=json"] + (["--keep-going"] if keep_going else []) + args
    r = subprocess.run(cmd, cwd=cwd, env=env, stdout=subprocess.PIPE, stderr=subprocess.PIPE, text=True)
    stems: List[str] = []
    diags: List[dict] = []
    for line in r.stdout.splitlines():
        if not line.startswith("{"):
            continue
        try:
            m = json.loads(line)
        except ValueError:
            continue
        if m.get("reason") == "compiler-artifact":
            mp = m.get("manifest_path", "")
            if any(mp.startswith(p) for p in member_prefixes):
                for fn in m.get("filenames", []):
                    mm = ARTIFACT_RE.search(os.path.basename(fn))
                    if mm:
                        stems.append(mm.group(1))
        elif m.get("reason") == "compiler-message":
            d = m.get("message", {})
            d["_package"] = m.get("package_id", "")
            d["_target"] = (m.get("target") or {}).get("name")
            d["_target_src"] = (m.get("target") or {}).get("src_path")
            diags.append(d)
    if r.returncode != 0 and not diags:
        diags.append({"level": "error", "message": "cargo failed: " + r.stderr[-3000:], "spans": [], "code": None})
    return r.returncode, sorted(set(stems)), diags


def wipe_member_fingerprints(target_dir: str, names: List[str]):
    fp = os.path.join(target_dir, "debug", ".fingerprint")
    if not os.path.isdir(fp):
        return
    for d in os.listdir(fp):
        if any(d.startswith(n + "-") for n in names):
            shutil.rmtree(os.path.join(fp, d), ignore_errors=True)


class Lock:
    def __init__(self, name: str):
        os.makedirs(WORK, exist_ok=True)
        self.path = os.path.join(WORK, name + ".lock")

    def __enter__(self):
        self.f = open(self.path, "w")
        fcntl.flock(self.f, fcntl.LOCK_EX)
        return self

    def __exit__(self, *a):
        fcntl.flock(self.f, fcntl.LOCK_UN)
        self.f.close()


def gc_work(keep: List[str], prefixes=("ws-", "corpus-quick-", "corpus-thorough-"), max_age_s: int = 3 * 3600):
    """Remove stale work directories (other driver builds, scratch repos) to bound disk use."""
    now = time.time()
    try:
        names = os.listdir(WORK)
    except OSError:
        return
    for n in names:
        if n.endswith(".lock") or not any(n.startswith(p) for p in prefixes):
            continue
        full = os.path.join(WORK, n)
        if full in keep or not os.path.isdir(full):
            continue
        marker = os.path.join(full, ".used")
        try:
            age = now - os.path.getmtime(marker if os.path.exists(marker) else full)
        except OSError:
            continue
        if age > max_age_s:
            shutil.rmtree(full, ignore_errors=True)
            try:
                os.remove(full + ".lock")
            except OSError:
                pass


def touch_used(d: str):
    with open(os.path.join(d, ".used"), "w") as f:
        f.write(str(time.time()))


NEED_ALL = None


def load_unit(facts_dir: str, stem: str, need) -> dict:
    """Load one fact file, through a per-derive pickle cache so that a check only parses what it needs."""
    import pickle
    src = os.path.join(facts_dir, stem + ".json")
    cdir = os.path.join(facts_dir, ".cache", stem)
    stamp = os.path.join(cdir, "stamp")
    mt = str(os.path.getmtime(src))
    fresh = False
    try:
        fresh = open(stamp).read() == mt
    except OSError:
        pass
    if not fresh:
        with open(src) as f:
            u = json.load(f)
        shutil.rmtree(cdir, ignore_errors=True)
        os.makedirs(cdir, exist_ok=True)
        by: Dict[str, list] = {}
        for g in u.get("generated", []):
            by.setdefault(g["derive"], []).append(g)
        base = {k: v for k, v in u.items() if k != "generated"}
        base["_derives"] = sorted(by)
        with open(os.path.join(cdir, "base.pkl"), "wb") as f:
            pickle.dump(base, f, protocol=pickle.HIGHEST_PROTOCOL)
        for d, items in by.items():
            with open(os.path.join(cdir, "d_%s.pkl" % d), "wb") as f:
                pickle.dump(items, f, protocol=pickle.HIGHEST_PROTOCOL)
        with open(stamp, "w") as f:
            f.write(mt)
    with open(os.path.join(cdir, "base.pkl"), "rb") as f:
        u = pickle.load(f)
    gen = []
    for d in u["_derives"]:
        if need is None or d in need:
            with open(os.path.join(cdir, "d_%s.pkl" % d), "rb") as f:
                gen += pickle.load(f)
    u["generated"] = gen
    return u


def ws_key() -> str:
    return hashlib.sha256((REPO + "|" + driver_hash()).encode()).hexdigest()[:10]


def extract_repo(need=None) -> List[dict]:
    """Facts of every compilation unit of the repository workspace (lib + tests), from REPO's working tree."""
    key = ws_key()
    base = os.path.join(WORK, "ws-" + key)
    target = os.path.join(base, "target")
    facts = os.path.join(base, "facts")
    with Lock("ws-" + key):
        names = ["strum", "strum_macros", "strum_tests", "strum_nostd_tests", "strum-", "strum_"]
        for attempt in range(2):
            rc, stems, diags = run_cargo_with_driver(REPO, target, facts, ["--workspace", "--tests"], [REPO + "/"])
            if rc != 0:
                errs = [d.get("rendered") or d.get("message") for d in diags if d.get("level") == "error"]
                raise ToolError("the repository workspace does not build:\n" + "\n".join(e or "" for e in errs[:5]))
            missing = [s for s in stems if not os.path.exists(os.path.join(facts, s + ".json"))]
            if not missing:
                break
            if attempt == 0:
                log("[verif] fact files missing for", missing, "- forcing recompilation")
                wipe_member_fingerprints(target, ["strum", "strum_macros", "strum_tests", "strum_nostd_tests", "strum-tests"])
                # also test targets (named after the test file)
                fp = os.path.join(target, "debug", ".fingerprint")
                for s in missing:
                    nm = s.rsplit("-", 1)[0]
                    for d in os.listdir(fp) if os.path.isdir(fp) else []:
                        if d.startswith(nm.replace("_", "-") + "-") or d.startswith(nm + "-"):
                            shutil.rmtree(os.path.join(fp, d), ignore_errors=True)
            else:
                raise ToolError("fact files missing after forced recompilation: %s" % missing)
        out = []
        for s in stems:
            d = load_unit(facts, s, need)
            d["_stem"] = s
            d["_origin"] = "repo"
            out.append(d)
        touch_used(base)
        gc_work([base])
        if len(out) < 20:
            raise ToolError("only %d compilation units analysed in the repository workspace (expected >= 20)" % len(out))
        return out


# ------------------------------------------------------------------------------------------------
# violations, known findings, evidence
# ------------------------------------------------------------------------------------------------

class Violation:
    def __init__(self, prop: str, rule: str, key: str, what: str, detail: dict):
        self.prop = prop
        self.rule = rule
        self.key = key          # stable, line-number free key (used for known-findings matching)
        self.what = what        # one-line human description
        self.detail = detail    # replay payload

    def __repr__(self):
        return f"Violation({self.prop},{self.rule},{self.key})"


def load_known() -> List[dict]:
    p = os.path.join(VERIF, "known_findings.json")
    if not os.path.exists(p):
        return []
    with open(p) as f:
        return json.load(f).get("findings", [])


def report(prop: str, tier: str, seed: int, level: str, coverage: dict, assumptions: List[str],
           violations: List[Violation], t0: float, extra: Optional[dict] = None) -> int:
    """Write evidence, print KNOWN-FINDING / VIOLATION lines, return the exit code."""
    known = [k for k in load_known() if k.get("property") == prop and k.get("status") == "open"]
    known_keys = {k["key"]: k for k in known}
    os.makedirs(os.path.join(EVIDENCE, "replay"), exist_ok=True)
    # drop stale replay files of this property
    for fn in os.listdir(os.path.join(EVIDENCE, "replay")):
        if fn.startswith(prop + "-"):
            os.remove(os.path.join(EVIDENCE, "replay", fn))
    by_key: Dict[str, List[Violation]] = {}
    for v in violations:
        by_key.setdefault(v.key, []).append(v)
    unknown = 0
    lines = []
    k = 0
    for key, vs in sorted(by_key.items()):
        if key in known_keys:
            lines.append("KNOWN-FINDING: property=%s %s [%s; %d instance(s) this run]" % (prop, known_keys[key]["what"], key, len(vs)))
            continue
        unknown += 1
        k += 1
        rp = os.path.join(EVIDENCE, "replay", "%s-%d.json" % (prop, k))
        with open(rp, "w") as f:
            json.dump({"property": prop, "key": key, "rule": vs[0].rule, "what": vs[0].what,
                       "instances": [x.detail for x in vs[:20]], "n_instances": len(vs)}, f, indent=1, default=str)
        lines.append("VIOLATION property=%s replay=%s" % (prop, rp))
        lines.append("  rule: %s" % vs[0].rule)
        lines.append("  what: %s" % vs[0].what)
        lines.append("  key:  %s  (%d instance(s))" % (key, len(vs)))
    cov = dict(coverage)
    ev = {
        "property_id": prop,
        "tier": tier,
        "seed": seed,
        "level": level,
        "coverage": cov,
        "assumptions": assumptions,
        "wall_s": round(time.time() - t0, 2),
        "violations": unknown,
        "known_findings_hit": sorted(k_ for k_ in by_key if k_ in known_keys),
        "repo": REPO,
        "repo_hash": repo_hash()[:16],
    }
    if extra:
        ev.update(extra)
    with open(os.path.join(EVIDENCE, prop + ".json"), "w") as f:
        json.dump(ev, f, indent=1, default=str)
    for l in lines:
        print(l)
    if unknown == 0:
        print("OK property=%s tier=%s (%s)" % (prop, tier, ", ".join("%s=%s" % (a, cov[a]) for a in cov if isinstance(cov[a], (int, bool)))))
    return 1 if unknown else 0
